#!/usr/bin/env python3
"""Compare a nextest log with BASELINE.json's stable_pass list: prints baseline tests that failed."""
import json, re, sys
b = json.load(open('/root/.vp/BASELINE.json'))
sp = set(b['stable_pass'])
fails = set()
for l in open(sys.argv[1]):
    m = re.search(r'FAIL \[.*?\] \(\s*\d+/\d+\) (\S+) (.*)$', l)
    if m:
        fails.add((m.group(1), m.group(2).strip()))
bad = [(a, n) for a, n in sorted(fails) if any(x.endswith(n) for x in sp)]
print("failed:", len(fails), "of which in baseline stable_pass:", len(bad))
for a, n in bad:
    print("  REGRESSION", a, n)
