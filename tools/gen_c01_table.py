import sys, os, re, json, collections
sys.path.insert(0,'/verif/lib'); sys.path.insert(0,'/verif')
import extract, facts
from rules import c01
fdir, info = extract.ensure_facts()
prog = facts.Program(fdir)
sites, nb = c01._enumerate(prog)
res = collections.OrderedDict()
for s in sites:
    if c01._gen_crate(s.exp) is not None: continue
    if c01._is_debug_only(s.exp) and s.kind == "panic": continue
    if c01.auto_discharge(s): continue
    res.setdefault((s.fn, s.kind), []).append(s)
srcs={}
def line(s):
    f=os.path.join('/repo',s.file)
    if f not in srcs: srcs[f]=open(f).read().split('\n')
    return srcs[f][s.line-1].strip() if 0<s.line<=len(srcs[f]) else '?'
RULES=[
 (r"overflow:Add", r"\+= ?1\b|\+ 1\b|\+ 2\b|\+ 1,|\+ 1\)", "increment by a small constant of a counter/index/depth that is bounded by the number of elements, characters or nesting levels held in memory"),
 (r"Handle::current|block_on", r"Handle::current\(\)|block_on", "synchronous callback of the line editor / blocking task: always entered from a tokio runtime thread (spawn_blocking or the interactive loop), so a current runtime handle exists"),
 (r"process-exit", r"process::exit", "process entry point after the runtime returned"),
 (r"block_in_place", r"block_in_place", "block_in_place panics only on a current-thread runtime; brush-shell builds a multi-thread runtime (entry::run: Builder::new_multi_thread) and these are line-editor callbacks entered from it"),
 (r"random_range", r"random_range\(0\.\.32768\)", "constant non-empty range"),
]
out=[]; todo=[]
for (fn,kind),ss in res.items():
    reason=None
    texts=[line(s) for s in ss]
    for kre,lre,why in RULES:
        if re.search(kre,kind) and all(re.search(lre,t) for t in texts):
            reason=why
    if reason: out.append({"function":fn,"kind":kind,"count":len(ss),"reason":reason})
    else: todo.append((fn,kind,ss,texts))
json.dump({"entries":out}, open('/tmp/table_auto.json','w'), indent=1)
print(len(out),'auto-classified;',len(todo),'todo')
for fn,kind,ss,texts in todo:
    print("== %s | %s | x%d"%(fn,kind,len(ss)))
    for s,t in zip(ss,texts): print("   %s:%d: %s"%(s.file,s.line,t[:140]))
sys.path.insert(0,'/verif/tools')
import c01_reasons as reasons
out2=[]; missing=[]
for fn,kind,ss,texts in todo:
    rs=[]
    ok=True
    for s in ss:
        w=reasons.R.get((s.file,s.line))
        if w is None:
            # source lines move when /repo is edited: fall back to the nearest reviewed line (<= 6 lines away) in the same file
            cands=[(abs(l-s.line),l) for (f,l) in reasons.R if f==s.file and abs(l-s.line)<=6]
            if cands:
                l=min(cands)[1]; w=reasons.R[(s.file,l)]; print("  remap %s:%d -> %d | %s | %s"%(s.file,s.line,l,line(s)[:60],w[:60]))
        if w is None: ok=False; missing.append((s.file,s.line,kind,line(s)))
        elif w not in rs: rs.append(w)
    if ok: out2.append({"function":fn,"kind":kind,"count":len(ss),"reason":"; ".join(rs)})
print("manual:",len(out2),"missing:",len(missing))
for m in missing: print("  MISSING",m)
if missing and "--force" not in sys.argv:
    print("table NOT rewritten: give every MISSING site a reason in tools/c01_reasons.py (or fix its file:line key) and run again")
    sys.exit(1)
OPERAND_VIA = {
    ("brush_core::variables::ShellVariable::apply_value_transforms", "String::replace_range"): ["len_utf8"],
    ("brush_core::expansion::WordExpander::expand_word_piece", "String::truncate"): ["trim_end_matches"],
}
for e in out + out2:
    k = (e["function"], e["kind"])
    if k in OPERAND_VIA:
        e["operand_via"] = OPERAND_VIA[k]
json.dump({"_comment":"Reviewed panic-capable sites that no local guard idiom discharges. Keyed by (function, kind) with the number of sites reviewed; a new site of the same kind in the same function exceeds the count and is reported.","entries":sorted(out+out2,key=lambda e:(e['function'],e['kind']))}, open('/verif/rules/c01_table.json','w'), indent=1)
