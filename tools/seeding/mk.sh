#!/bin/bash
# usage: mk.sh ID
set -e
ID=$1
git -C /repo worktree add --detach /tmp/wt/$ID HEAD -q
python3 - "$ID" <<'PY'
import json,sys
i=sys.argv[1]
for l in open('/verif/properties.jsonl'):
    p=json.loads(l)
    if p['id']==i:
        prop="%s — %s\n\n%s\n\nQuantifier: %s\n\nWhy the existing tests cannot settle it: %s\n" % (p['id'],p['title'],p['statement'],p['quantifier']['text'],p['why_tests_cant'])
        t=open('/tmp/wt/PROMPT.tmpl').read().replace('{WT}','/tmp/wt/'+i).replace('{PROP}',prop)
        open('/tmp/wt/%s.prompt.txt'%i,'w').write(t)
PY
