#!/bin/bash
# usage: verify_rs.sh TAG crate testname features  (demo.rs seeds)
TAG=$1
cd /tmp/wt/$TAG || exit 1
OUT=/tmp/wt/$TAG.verify.txt; : > $OUT
for N in 1 2; do [ -f _seed/$N/patch.diff ] || continue
  git checkout -q -- . ; git apply _seed/$N/patch.diff || { echo "$N: PATCH FAILED" >> $OUT; continue; }
  cp _seed/$N/demo.rs brush-interactive/tests/c19_demo.rs
  cargo test --offline -p brush-interactive --features reedline --test c19_demo -- --nocapture > /tmp/wt/$TAG.$N.demo.out 2>&1
  rm -f brush-interactive/tests/c19_demo.rs
  v=$(grep -c VIOLATION /tmp/wt/$TAG.$N.demo.out)
  cargo build --offline -p brush-shell > /dev/null 2>&1 || { echo "$N: BUILD FAILED" >> $OUT; continue; }
  cargo nextest run --workspace --no-fail-fast --tool-config-file pb:/w/lib/nextest.toml --profile pb --test-threads 6 --offline > /tmp/wt/$TAG.$N.suite.log 2>&1
  s=$(python3 /verif/bin_suite_check.py /tmp/wt/$TAG.$N.suite.log | tail -1)
  echo "$N: demo VIOLATION lines=$v; suite: $s" >> $OUT
done
git checkout -q -- .
cp _seed/1/demo.rs brush-interactive/tests/c19_demo.rs
cargo test --offline -p brush-interactive --features reedline --test c19_demo -- --nocapture > /tmp/wt/$TAG.clean.demo.out 2>&1
rm -f brush-interactive/tests/c19_demo.rs
echo "clean: demo1 VIOLATION lines=$(grep -c VIOLATION /tmp/wt/$TAG.clean.demo.out)" >> $OUT
echo done >> $OUT
