#!/bin/bash
# usage: verify.sh ID  -> builds, runs demo, compares, runs suite
ID=$1
cd /tmp/wt/$ID || exit 1
cargo build --offline -p brush-shell 2>&1 | tail -1
LC_ALL=C.UTF-8 ./target/debug/brush _seed/demo.sh > /tmp/wt/$ID.demo.out 2>&1
if diff -q /tmp/wt/$ID.demo.out _seed/expected_with_change.txt >/dev/null; then echo "DEMO: matches expected_with_change"; else echo "DEMO: differs from expected_with_change:"; diff /tmp/wt/$ID.demo.out _seed/expected_with_change.txt | head -10; fi
echo "with vs without:"; diff _seed/expected_with_change.txt _seed/expected_without_change.txt | head -${2:-12}
cargo nextest run --workspace --no-fail-fast --tool-config-file pb:/w/lib/nextest.toml --profile pb --test-threads 8 --offline > /tmp/wt/$ID.suite.log 2>&1
python3 /verif/bin_suite_check.py /tmp/wt/$ID.suite.log | tail -2
