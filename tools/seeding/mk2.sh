#!/bin/bash
# usage: mk2.sh ID TAG "focus sentence"
set -e
ID=$1; TAG=$2; FOCUS=$3
WT=/tmp/wt/$TAG
git -C /repo worktree add --detach $WT HEAD -q
python3 - "$ID" "$TAG" "$FOCUS" <<'PY'
import json,sys
i,tag,focus=sys.argv[1:4]
for l in open('/verif/properties.jsonl'):
    p=json.loads(l)
    if p['id']==i:
        prop="%s — %s\n\n%s\n\nQuantifier: %s\n\nWhy the existing tests cannot settle it: %s\n" % (p['id'],p['title'],p['statement'],p['quantifier']['text'],p['why_tests_cant'])
        t=open('/tmp/wt/PROMPT.tmpl').read().replace('{WT}','/tmp/wt/'+tag).replace('{PROP}',prop)
        if focus:
            t=t.replace("Your task: produce ONE realistic source change","For this exercise concentrate on this part of the property: "+focus+"\n\nYour task: produce ONE realistic source change",1)
        open('/tmp/wt/%s.prompt.txt'%tag,'w').write(t)
PY
cp -a /repo/target $WT/target
echo ready $TAG
