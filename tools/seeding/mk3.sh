#!/bin/bash
# usage: mk3.sh ID TAG   (three-change prompt)
set -e
ID=$1; TAG=$2
WT=/tmp/wt/$TAG
git -C /repo worktree add --detach $WT HEAD -q
python3 - "$ID" "$TAG" <<'PY'
import json,sys
i,tag=sys.argv[1:3]
for l in open('/verif/properties.jsonl'):
    p=json.loads(l)
    if p['id']==i:
        prop="%s — %s\n\n%s\n\nQuantifier: %s\n\nWhy the existing tests cannot settle it: %s\n" % (p['id'],p['title'],p['statement'],p['quantifier']['text'],p['why_tests_cant'])
        t=open('/tmp/wt/PROMPT3.tmpl').read().replace('{WT}','/tmp/wt/'+tag).replace('{PROP}',prop)
        open('/tmp/wt/%s.prompt.txt'%tag,'w').write(t)
PY
cp -a /repo/target $WT/target
echo ready $TAG
