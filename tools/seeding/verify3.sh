#!/bin/bash
# usage: verify3.sh TAG  -> for N in 1 2 3: apply patch, build, run demo, run suite; writes /tmp/wt/TAG.verify.txt
TAG=$1
cd /tmp/wt/$TAG || exit 1
OUT=/tmp/wt/$TAG.verify.txt; : > $OUT
for N in 1 2 3; do
  [ -f _seed/$N/patch.diff ] || continue
  git checkout -q -- . ; git apply _seed/$N/patch.diff || { echo "$N: PATCH FAILED" >> $OUT; continue; }
  cargo build --offline -p brush-shell > /dev/null 2>&1 || { echo "$N: BUILD FAILED" >> $OUT; continue; }
  if [ -f _seed/$N/run_demo.sh ]; then (cd _seed/$N && timeout 120 bash run_demo.sh) > /tmp/wt/$TAG.$N.demo.out 2>&1
  else LC_ALL=C.UTF-8 timeout 120 ./target/debug/brush _seed/$N/demo.sh > /tmp/wt/$TAG.$N.demo.out 2>&1; fi
  if diff -q /tmp/wt/$TAG.$N.demo.out _seed/$N/expected_with_change.txt > /dev/null; then d="demo=matches-with-change"; else d="demo=DIFFERS($(diff /tmp/wt/$TAG.$N.demo.out _seed/$N/expected_with_change.txt | grep -c '^[<>]') lines)"; fi
  w=$(diff _seed/$N/expected_with_change.txt _seed/$N/expected_without_change.txt | grep -c '^[<>]')
  cargo nextest run --workspace --no-fail-fast --tool-config-file pb:/w/lib/nextest.toml --profile pb --test-threads 4 --offline > /tmp/wt/$TAG.$N.suite.log 2>&1
  s=$(python3 /verif/bin_suite_check.py /tmp/wt/$TAG.$N.suite.log | tail -1)
  echo "$N: $d with-vs-without=$w lines; suite: $s" >> $OUT
done
git checkout -q -- .
echo done >> $OUT
