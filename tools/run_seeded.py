#!/usr/bin/env python3
"""Checker self-test against the seeded changes under /verif/seeded/<id>/ (not a registered check: it
edits /repo's working tree temporarily). For each seed: git apply, run the check(s) of the property it
breaks (and optionally all), record which rule fired, git checkout to undo. Prints a table.

usage: tools/run_seeded.py [--all-checks] [seed-id ...]"""
import json
import os
import re
import subprocess
import sys

VERIF = os.path.dirname(os.path.dirname(os.path.abspath(__file__)))
REPO = "/repo"
SUBDIR = "mutants" if "--mutants" in sys.argv else "seeded"


def sh(cmd, **kw):
    return subprocess.run(cmd, shell=True, stdout=subprocess.PIPE, stderr=subprocess.STDOUT, text=True, **kw)


def main():
    args = [a for a in sys.argv[1:] if not a.startswith("--")]
    all_checks = "--all-checks" in sys.argv
    seeds = sorted(d for d in os.listdir(os.path.join(VERIF, SUBDIR)) if os.path.isdir(os.path.join(VERIF, SUBDIR, d)))
    if args:
        seeds = [s for s in seeds if s in args]
    dirty = sh("git -C %s status --porcelain --untracked-files=no" % REPO).stdout.strip()
    if dirty:
        print("refusing to run: /repo has uncommitted changes:\n" + dirty)
        return 2
    results = []
    for s in seeds:
        d = os.path.join(VERIF, SUBDIR, s)
        meta = json.load(open(os.path.join(d, "meta.json")))
        pid = meta["property"]
        r = sh("git -C %s apply --whitespace=nowarn %s" % (REPO, os.path.join(d, "patch.diff")))
        if r.returncode != 0:
            results.append((s, pid, "PATCH-DOES-NOT-APPLY", r.stdout.strip()[:200]))
            continue
        try:
            target = "all" if all_checks else pid
            out = sh("cd %s && ./check %s --tier quick" % (VERIF, target)).stdout
            fired = re.findall(r"VIOLATION property=(C\d+)", out)
            rules = re.findall(r"rule=(\S+) function=(.+?) key=(.+)", out)
            own = [x for x in fired if x == pid]
            verdict = "CAUGHT" if own else ("caught-by-other:" + ",".join(sorted(set(fired))) if fired else "MISSED")
            results.append((s, pid, verdict, "; ".join("%s %s %s" % x for x in rules[:3])[:300]))
        finally:
            sh("git -C %s checkout -- ." % REPO)
    w = max(len(r[0]) for r in results) if results else 4
    for s, pid, verdict, detail in results:
        print("%-*s  %s  %-8s %s" % (w, s, pid, verdict, detail))
    # the runs above rewrote evidence/<id>.json from mutated trees: put the committed (unchanged-tree) evidence back
    sh("git -C %s checkout -- evidence" % VERIF)
    sh("rm -rf %s" % os.path.join(VERIF, "evidence", "replay"))
    missed = [r for r in results if r[2] == "MISSED"]
    print("%d seeds, %d caught by their own property's check, %d missed" % (len(results), sum(1 for r in results if r[2] == "CAUGHT"), len(missed)))
    return 0


if __name__ == "__main__":
    sys.exit(main())
