// triage only (not part of any check): run small generated scripts in-process and report panics
use std::collections::HashMap;
use std::panic::{self, AssertUnwindSafe};
use std::sync::{Arc, Mutex};

thread_local! { static CUR: std::cell::RefCell<String> = std::cell::RefCell::new(String::new()); }

async fn new_shell() -> brush_core::Shell {
    let mut shell = brush_core::Shell::builder()
        .profile(brush_core::ProfileLoadBehavior::Skip)
        .rc(brush_core::RcLoadBehavior::Skip)
        .build()
        .await
        .unwrap();
    for (name, b) in brush_builtins::default_builtins(brush_builtins::BuiltinSet::BashMode) {
        shell.register_builtin(&name, b);
    }
    shell
}

fn main() {
    let args: Vec<String> = std::env::args().collect();
    let maxlen: usize = args[1].parse().unwrap();
    let alphabet: Vec<char> = args[2].chars().collect();
    let templates: Vec<String> = args[3..].to_vec();
    let found: Arc<Mutex<HashMap<String, String>>> = Arc::new(Mutex::new(HashMap::new()));
    let f2 = found.clone();
    panic::set_hook(Box::new(move |info| {
        let loc = info.location().map(|l| format!("{}:{}", l.file(), l.line())).unwrap_or_default();
        let cur = CUR.with(|c| c.borrow().clone());
        let mut m = f2.lock().unwrap();
        let e = m.entry(loc).or_insert_with(|| cur.clone());
        if cur.len() < e.len() { *e = cur; }
    }));
    let n = alphabet.len() as u64;
    let nthreads = 16u64;
    let slots: Arc<Vec<Mutex<(String, std::time::Instant)>>> = Arc::new((0..nthreads).map(|_| Mutex::new((String::new(), std::time::Instant::now()))).collect());
    {
        let slots = slots.clone();
        std::thread::spawn(move || loop {
            std::thread::sleep(std::time::Duration::from_secs(5));
            let mut stuck = vec![];
            for s in slots.iter() {
                let g = s.lock().unwrap();
                if !g.0.is_empty() && g.1.elapsed() > std::time::Duration::from_secs(20) { stuck.push(g.0.clone()); }
            }
            if !stuck.is_empty() {
                for s in stuck { println!("HANG script {:?}", s); }
                std::process::exit(3);
            }
        });
    }
    let mut handles = vec![];
    for t in 0..nthreads {
        let alphabet = alphabet.clone();
        let templates = templates.clone();
        let slots = slots.clone();
        handles.push(std::thread::Builder::new().stack_size(256 << 20).spawn(move || {
            let rt = tokio::runtime::Builder::new_current_thread().enable_all().build().unwrap();
            let mut count = 0u64;
            let mut shell = rt.block_on(new_shell());
            let pre = "x=abcde; y=; a=(p q r); declare -A h=([k]=v [m]=w); set -- one two three; n=3; unset u";
            let src = brush_core::SourceInfo::from("triage");
            for len in 0..=maxlen {
                let total = n.pow(len as u32);
                let mut i = t;
                while i < total {
                    let mut s = String::with_capacity(len);
                    let mut x = i;
                    for _ in 0..len { s.push(alphabet[(x % n) as usize]); x /= n; }
                    for tpl in &templates {
                        let script = format!("{pre}; {}", tpl.replace("@@", &s));
                        CUR.with(|c| *c.borrow_mut() = script.clone());
                        { let mut g = slots[t as usize].lock().unwrap(); *g = (script.clone(), std::time::Instant::now()); }
                        let params = shell.default_exec_params();
                        let r = panic::catch_unwind(AssertUnwindSafe(|| {
                            rt.block_on(async { let _ = tokio::time::timeout(std::time::Duration::from_secs(5), shell.run_string(script.clone(), &src, &params)).await; })
                        }));
                        if r.is_err() { shell = rt.block_on(new_shell()); }
                        count += 1;
                    }
                    i += nthreads;
                }
            }
            count
        }).unwrap());
    }
    let total: u64 = handles.into_iter().map(|h| h.join().unwrap()).sum();
    println!("scripts: {}", total);
    for (loc, inp) in found.lock().unwrap().iter() { println!("PANIC at {} script {:?}", loc, inp); }
}
