#!/bin/bash
# triage only. NOTE: never put kill / ulimit / exec / rm in the templates.
cd /tmp/triage2/cwd
T=../target/debug/triage2
$T 5 'x:-#%/01*[]@!^,~' ': "${x@@}"' ': ${a[@]@@}' 2>/dev/null | tail -5 > /tmp/triage2/o_pe5.txt
$T 5 'xn1+-*/%<>=&|^~!?:(),9 [' ': $((@@))' 'let "@@"' 2>/dev/null | tail -5 > /tmp/triage2/o_ar5.txt
$T 4 'x*?[]!^-a()|@+\.$'"'"'"' 'case abc in @@) ;; esac' '[[ abc == @@ ]]' '[[ abc =~ @@ ]]' ': ${x#@@}' ': ${x/@@/z}' 2>/dev/null | tail -5 > /tmp/triage2/o_pat4.txt
$T 4 '%sdqbcx-0.*#+ \n1' "printf '@@' 1 a" 'printf "@@"' 2>/dev/null | tail -5 > /tmp/triage2/o_pf4.txt
$T 3 '-+0123456789nrtsdauex ' 'shift @@' 'history @@' 'fc @@ </dev/null' 'read @@ </dev/null' 'mapfile @@ </dev/null' 'umask @@' 'getopts @@' 'declare @@' 'set @@' 'printf %@@ 1' 'echo {@@}' 'wait @@' 'trap @@' 'dirs @@' 'popd @@' 'pushd @@' 'type @@' 'hash @@' 'let @@' 'test @@' 'return @@' 'break @@' 'continue @@' 'local @@' 'export @@' 'unset @@' 'shopt @@' 'complete @@' 'compgen @@' 'alias @@' 'bind @@' 'jobs @@' 'echo @@' 'cd @@' 2>/dev/null | tail -8 > /tmp/triage2/o_bi3.txt
tail -4 /tmp/triage2/o_*.txt
