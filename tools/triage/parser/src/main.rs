use std::collections::HashMap;
use std::panic;
use std::sync::{Arc, Mutex};

fn run(input: &str) {
    let _ = brush_parser::tokenize_str(input);
    let mut reader = std::io::BufReader::new(input.as_bytes());
    let opts = brush_parser::ParserOptions::default();
    let mut parser = brush_parser::Parser::new(&mut reader, &opts);
    let _ = parser.parse_program();
    let _ = brush_parser::word::parse(input, &opts);
    let _ = brush_parser::arithmetic::parse(input);
}

fn main() {
    let args: Vec<String> = std::env::args().collect();
    let maxlen: usize = args.get(1).map(|s| s.parse().unwrap()).unwrap_or(5);
    let alphabet: Vec<char> = args.get(2).map(|s| s.chars().collect()).unwrap_or_else(|| "<>()$\n`'\"\\{}a #;".chars().collect());
    let found: Arc<Mutex<HashMap<String, String>>> = Arc::new(Mutex::new(HashMap::new()));
    let f2 = found.clone();
    thread_local! { static CUR: std::cell::RefCell<String> = std::cell::RefCell::new(String::new()); }
    panic::set_hook(Box::new(move |info| {
        let loc = info.location().map(|l| format!("{}:{}", l.file(), l.line())).unwrap_or_default();
        let cur = CUR.with(|c| c.borrow().clone());
        let mut m = f2.lock().unwrap();
        let e = m.entry(loc).or_insert_with(|| cur.clone());
        if cur.len() < e.len() { *e = cur; }
    }));
    let n = alphabet.len();
    let nthreads = 16;
    let mut handles = vec![];
    for t in 0..nthreads {
        let alphabet = alphabet.clone();
        handles.push(std::thread::Builder::new().stack_size(64 << 20).spawn(move || {
            let mut count = 0u64;
            for len in 1..=maxlen {
                let total = (n as u64).pow(len as u32);
                let mut i = t as u64;
                while i < total {
                    let mut s = String::with_capacity(len);
                    let mut x = i;
                    for _ in 0..len { s.push(alphabet[(x % n as u64) as usize]); x /= n as u64; }
                    CUR.with(|c| *c.borrow_mut() = s.clone());
                    let _ = panic::catch_unwind(|| run(&s));
                    count += 1;
                    i += nthreads as u64;
                }
            }
            count
        }).unwrap());
    }
    let total: u64 = handles.into_iter().map(|h| h.join().unwrap()).sum();
    println!("inputs: {}", total);
    for (loc, inp) in found.lock().unwrap().iter() { println!("PANIC at {} input {:?}", loc, inp); }
}
