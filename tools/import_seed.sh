#!/bin/bash
# usage: tools/import_seed.sh <worktree> <seed-id> <property> "<needs>" "<ran>"
set -e
WT=$1; ID=$2; PID=$3; NEEDS=$4; RAN=$5
D=/verif/seeded/$ID
mkdir -p $D
cp $WT/_seed/patch.diff $D/patch.diff
for f in demo.sh demo.rs NOTES.md expected_with_change.txt expected_without_change.txt; do [ -f $WT/_seed/$f ] && cp $WT/_seed/$f $D/ || true; done
python3 - "$D" "$PID" "$NEEDS" "$RAN" <<'PY'
import json,sys
d,pid,needs,ran=sys.argv[1:5]
json.dump({"property":pid,"breaks":pid,"needs_to_manifest":needs,"what_i_ran":ran,"origin":"independent sub-agent given only the property text and a scratch worktree"},open(d+"/meta.json","w"),indent=1)
PY
echo imported $D
