"""dev helper: print the calls / switches of one body.  usage: tools/dump_body.py <name-substring>"""
import sys, os
sys.path.insert(0, os.path.join(os.path.dirname(os.path.abspath(__file__)), "..", "lib"))
import extract, facts
fdir, info = extract.ensure_facts()
prog = facts.Program(fdir)
pat = sys.argv[1]
for n, b in prog.bodies.items():
    if pat in n:
        print("==", n, "kind", b.kind, "argc", b.argc, "ret", b.ret[:80])
        for bl in b.blocks:
            if bl.cleanup:
                continue
            t = bl.term
            extra = ""
            if t.kind == "call":
                extra = "%s args=%s -> bb%s dest=_%s" % (t.best_callee() or t.callee, [repr(a)[:50] for a in t.args], t.target, t.dest.local if t.dest is not None else None)
            elif t.kind == "switch":
                extra = "switch %r targets=%s otherwise=%s" % (t.discr, t.targets, t.otherwise)
            elif t.kind == "goto":
                extra = "goto bb%s" % t.target
            else:
                extra = t.kind
            st = "; ".join("%r=%s%s" % (s.place, s.rv.kind, [repr(o)[:30] for o in s.rv.ops]) for s in bl.stmts if s.kind == 'a')
            print("  bb%d L%s [%s] %s" % (bl.idx, t.line, st[:200], extra))
