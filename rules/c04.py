"""C04 — quoted expansions arrive byte-exact (DESIGN §3 C04): the quoting tag is assigned,
preserved and honoured on every path, and expansion results never flow into a parser."""
from rulelib import (SHIPPED, arm_regions, call_sites, cfg_of, defs_of, enum_switches, owner, resolve_bool_arm, short, switches_on_field)
from dataflow import base_local, field_stores, flow_back, origins, const_value
from facts import canon

EXP = "brush_core::expansion::"
PIECE = EXP + "ExpansionPiece"
WX = EXP + "WordExpander"
WP = "brush_parser::word::WordPiece"

# WordPiece variant -> ExpansionPiece variants its arm may construct
REF_TAGS = {
    "Text": {"Splittable"},
    "SingleQuotedText": {"Unsplittable"},
    "AnsiCQuotedText": {"Unsplittable"},
    "DoubleQuotedSequence": {"Unsplittable"},
    "GettextDoubleQuotedSequence": {"Unsplittable"},
    "TildeExpansion": {"Unsplittable"},
    "ParameterExpansion": set(),
    "BackquotedCommandSubstitution": {"Splittable"},
    "CommandSubstitution": {"Splittable"},
    "EscapeSequence": {"Unsplittable", "Splittable"},
    "ArithmeticExpression": {"Splittable"},
}
REF_BACKSLASH = {"Strip": {"Unsplittable"}, "Preserve": {"Splittable"}, "DoubleQuoted": {"Unsplittable"}}

SOURCES = {
    "brush_core::variables::ShellValue::try_get_cow_str", "brush_core::variables::ShellValue::to_cow_str",
    "brush_core::variables::ShellValue::get_at", "brush_core::variables::ShellValue::element_values",
    "brush_core::variables::ShellValue::element_keys", "brush_core::shell::Shell::env_str",
    "brush_core::shell::Shell::current_shell_args", "brush_core::commands::invoke_command_in_subshell_and_get_output",
    "brush_core::variables::ShellVariable::resolve_value",
}
# sink callee -> index of the text argument
SINKS = {
    "brush_parser::word::parse": 0, "brush_parser::word::parse_heredoc": 0, "brush_parser::word::parse_brace_expansions": 0,
    WX + "::basic_expand": 1, WX + "::basic_expand_to_str": 1, WX + "::expand_parameter_word": 1,
    "brush_parser::tokenizer::tokenize_str": 0, "brush_parser::tokenizer::tokenize_str_with_options": 0,
    "brush_core::shell::Shell::parse_string": 1, "brush_parser::parser::Parser::parse_program": 0,
    "brush_core::shell::Shell::run_string": 1,
}
# reviewed by-design re-evaluation points: (function, sink) -> reason
REPARSE_ALLOWED = {
}


def _piece_variants(b, blks):
    vs = set()
    for bb in blks:
        for s in b.blocks[bb].stmts:
            if s.kind == 'a' and s.rv.kind == 'agg' and s.rv.adt == PIECE:
                vs.add(s.rv.variant)
    return vs


def run(prog, chk):
    chk.explanation = (
        "TABLE + PAIR + TAINT on MIR: the maps ExpansionPiece→PatternPiece/RegexPiece send Unsplittable to Literal and Splittable to "
        "Pattern; every arm of expand_word_piece constructs only the tag the reference allows for that word-piece kind (quoted, ANSI-C, "
        "tilde and escape pieces Unsplittable; the Preserve escape mode alone Splittable); everything leaving "
        "process_double_quoted_pieces passed make_unsplittable; the in_double_quotes flag is restored on every path; split_fields does "
        "nothing but push for Unsplittable pieces; pathname expansion builds its pattern through the tag map; literal regex pieces are "
        "escaped; and no text derived from a variable value, positional parameter or command-substitution output reaches a word / "
        "program parser inside brush_core::expansion. Not decided: byte-exactness for every string / IFS / glob option / directory.")
    chk.assumptions = ["rustc MIR", "taint is not propagated through the long-lived &mut Shell / &mut WordExpander receivers (state, not data carriers)"]

    # ---- R4.1 ----------------------------------------------------------------------------------------
    chk.rule("R4.1", "From<ExpansionPiece> for PatternPiece / RegexPiece: Unsplittable → Literal, Splittable → Pattern")
    for tgt in ("brush_core::patterns::PatternPiece", "brush_core::regex::RegexPiece"):
        name = "<%s as core::convert::From<%s>>::from" % (tgt, PIECE)
        b = prog.body(name)
        if not chk.anchor("R4.1", name, b):
            continue
        sws = enum_switches(prog, b, PIECE)
        if not sws:
            chk.fail("R4.1", name, "switch-missing", "no match on ExpansionPiece")
            continue
        sbb, m, other, rest, _ = sws[0]
        tg = dict(m)
        for r in rest:
            tg[r] = other
        regs = arm_regions(b, sbb, tg)
        for v, want in (("Unsplittable", "Literal"), ("Splittable", "Pattern")):
            got = {s.rv.variant for bb in regs.get(v, ()) for s in b.blocks[bb].stmts if s.kind == 'a' and s.rv.kind == 'agg' and s.rv.adt == tgt}
            if got == {want}:
                chk.ok("R4.1", "%s:%s" % (tgt.rsplit("::", 1)[-1], v), "%s → %s" % (v, want), function=name)
            else:
                chk.fail("R4.1", name, "tag-map:%s" % v, "%s pieces become %s of %s (reference: %s): quoted text is treated as a pattern or vice versa" % (v, sorted(got), tgt, want))

    # ---- R4.2 ----------------------------------------------------------------------------------------
    chk.rule("R4.2", "expand_word_piece: each WordPiece arm constructs only the reference tag; double-quoted output passes "
                     "make_unsplittable; in_double_quotes is restored on every path")
    eb = prog.impl_body(WX + "::expand_word_piece")
    if chk.anchor("R4.2", WX + "::expand_word_piece", eb):
        sws = enum_switches(prog, eb, WP)
        if not sws:
            chk.fail("R4.2", eb.name, "switch-missing", "no match on WordPiece")
        else:
            sbb, m, other, rest, _ = max(sws, key=lambda x: len(x[1]))
            regs = arm_regions(eb, sbb, m)
            chk.floor("R4.2", "WordPiece arms", len(regs), 10)
            for v, blks in sorted(regs.items()):
                want = REF_TAGS.get(v)
                got = _piece_variants(eb, blks)
                if want is None:
                    chk.fail("R4.2", owner(eb.name), "unknown-word-piece:" + v, "WordPiece::%s has no reference tag entry (new word-piece kind?)" % v)
                elif got <= want:
                    chk.ok("R4.2", "arm:" + v, "constructs %s ⊆ %s" % (sorted(got), sorted(want)), function=owner(eb.name))
                else:
                    chk.fail("R4.2", owner(eb.name), "arm-tag:" + v, "WordPiece::%s constructs %s pieces (reference %s): %s" %
                             (v, sorted(got - want), sorted(want), "quoted text becomes subject to splitting/globbing" if "Splittable" in got - want else "unquoted text stops being split"))
            # shared arms (or-patterns) share regions: both names map to the same blocks, already covered
            # EscapeSequence sub-table
            esc = regs.get("EscapeSequence", set())
            bsw = [s for s in enum_switches(prog, eb, EXP + "UnquotedBackslashHandling") if s[0] in esc]
            if not bsw:
                chk.fail("R4.2", owner(eb.name), "backslash-mode-switch", "no match on UnquotedBackslashHandling in the EscapeSequence arm")
            else:
                sb2, m2, o2, r2, _ = bsw[0]
                tg2 = dict(m2)
                for r in r2:
                    tg2[r] = o2
                regs2 = arm_regions(eb, sb2, tg2)
                for v, want in REF_BACKSLASH.items():
                    got = _piece_variants(eb, regs2.get(v, set()))
                    if got and got <= want:
                        chk.ok("R4.2", "escape-mode:" + v, "constructs %s" % sorted(got), function=owner(eb.name))
                    else:
                        chk.fail("R4.2", owner(eb.name), "escape-mode:" + v, "UnquotedBackslashHandling::%s constructs %s (reference %s)" % (v, sorted(got), sorted(want)))
                # the in_double_quotes early return constructs Unsplittable only: blocks of the arm not under the mode switch
                pre = esc - set().union(*[c_ for c_ in [cfg_of(eb).reachable_from(sb2)]])
                gotp = _piece_variants(eb, pre)
                if gotp <= {"Unsplittable"}:
                    chk.ok("R4.2", "escape-in-double-quotes", "before the mode switch only Unsplittable is constructed", function=owner(eb.name))
                else:
                    chk.fail("R4.2", owner(eb.name), "escape-in-double-quotes", "escape sequence inside double quotes constructs %s" % sorted(gotp))
        # in_double_quotes PAIR
        _flag_pair(chk, eb, "R4.2", WX + "::process_double_quoted_pieces")
    pb = prog.impl_body(WX + "::expand_parameter_word")
    if chk.anchor("R4.2", WX + "::expand_parameter_word", pb):
        _flag_pair(chk, pb, "R4.2", WX + "::basic_expand", value=0)
    db = prog.impl_body(WX + "::process_double_quoted_pieces")
    if chk.anchor("R4.2", WX + "::process_double_quoted_pieces", db):
        d = defs_of(db)
        n_ok = 0
        # the returned vector: the local moved into `Ok(..)`
        ret_locals = set()
        for bl in db.blocks:
            for s in bl.stmts:
                if s.kind == 'a' and s.place.is_local() and s.place.local == 0 and s.rv.kind == 'agg' and s.rv.variant == "Ok" and s.rv.ops[0].place is not None:
                    ret_locals.add(base_local(db, d, s.rv.ops[0]))
        outs = []
        for bb, t in db.calls():
            if (t.callee or "") in ("alloc::vec::Vec::push", "alloc::vec::Vec::append"):
                rf = flow_back(db, d, t.args[0])
                if any(f.local in ret_locals for f in rf) or base_local(db, d, t.args[0]) in ret_locals:
                    outs.append((bb, t))
        for bb, t in outs:
            tgt_is_fields = any(o.kind in ('call', 'agg', 'unknown', 'arg') for o in origins(db, d, t.args[0]))
            flows = flow_back(db, d, t.args[1], all_args=True)
            passed = False
            for f in flows:
                if f.kind == 'agg' and f.node.raw.get("ak") == "closure":
                    cb = prog.body(canon(f.node.raw["def"]))
                    if cb is not None and (call_sites(cb, {PIECE + "::make_unsplittable"}) or _closure_calls(prog, cb, PIECE + "::make_unsplittable")):
                        passed = True
            if passed:
                n_ok += 1
                chk.ok("R4.2", "dq-output@%s" % t.line, "pieces pass make_unsplittable before being pushed", function=owner(db.name))
            else:
                chk.fail("R4.2", owner(db.name), "dq-output-not-unsplittable", "process_double_quoted_pieces pushes pieces at line %s that did not pass make_unsplittable: the content of \"…\" can be re-split / globbed" % t.line)
        chk.floor("R4.2", "double-quote output sites", n_ok, 2)

    # ---- R4.3 ----------------------------------------------------------------------------------------
    chk.rule("R4.3", "split_fields: the Unsplittable arm only pushes the piece (no chars()/IFS lookup); pathname expansion builds its "
                     "pattern via From<WordField> for Pattern")
    sb = prog.body(WX + "::split_fields")
    if chk.anchor("R4.3", WX + "::split_fields", sb):
        sws = enum_switches(prog, sb, PIECE)
        ok = False
        for sbb, m, other, rest, _ in sws:
            tg = dict(m)
            for r in rest:
                tg[r] = other
            if "Unsplittable" not in tg or "Splittable" not in tg:
                continue
            regs = arm_regions(sb, sbb, tg)
            un = regs.get("Unsplittable", set())
            sp = regs.get("Splittable", set())
            un_calls = {(sb.blocks[bb].term.callee or "") for bb in un if sb.blocks[bb].term.kind == "call"}
            sp_calls = {(sb.blocks[bb].term.callee or "") for bb in sp if sb.blocks[bb].term.kind == "call"}
            if any(c_.endswith("str::chars") for c_ in sp_calls):
                bad = [c_ for c_ in un_calls if c_.endswith(("str::chars", "str::contains", "::contains", "String::push", "core::mem::take"))]
                if bad:
                    chk.fail("R4.3", sb.name, "unsplittable-inspected", "split_fields examines Unsplittable pieces (%s): quoted text is split on IFS" % bad)
                else:
                    ok = True
        if ok:
            chk.ok("R4.3", "unsplittable-only-pushed", "only the Splittable arm walks characters", function=sb.name)
        elif not any(True for _ in []):
            chk.fail("R4.3", sb.name, "split-arms", "no match with separate Unsplittable / Splittable arms where only Splittable walks characters") if not ok else None
    gb = prog.body(WX + "::expand_pathnames_in_field")
    if chk.anchor("R4.3", WX + "::expand_pathnames_in_field", gb):
        if any((t.best_callee() or "").startswith("<brush_core::patterns::Pattern as core::convert::From<brush_core::expansion::WordField>>") for _, t in gb.calls()):
            chk.ok("R4.3", "glob-pattern-from-tags", "Pattern::from(WordField) (tag map) builds the glob pattern", function=gb.name)
        else:
            chk.fail("R4.3", gb.name, "glob-pattern-not-from-tags", "expand_pathnames_in_field no longer builds its pattern through From<WordField> for Pattern")
    fb = prog.body("<brush_core::patterns::Pattern as core::convert::From<brush_core::expansion::WordField>>::from")
    if chk.anchor("R4.3", "From<WordField> for Pattern", fb):
        if any(a.const is not None and a.const.fn and canon(a.const.fn).endswith("From::from") for _, t in fb.calls() for a in t.args) or \
                any("PatternPiece" in (t.gen_args or "") for _, t in fb.calls()):
            chk.ok("R4.3", "wordfield-map-uses-piece-map", "maps each piece through PatternPiece::from", function=fb.name)
        else:
            chk.fail("R4.3", fb.name, "wordfield-map", "From<WordField> for Pattern does not map pieces through PatternPiece::from")

    # ---- R4.4 ----------------------------------------------------------------------------------------
    chk.rule("R4.4", "RegexPiece::to_regex_str escapes Literal pieces; Pattern::to_regex_str escapes Literal pieces (C08 R8.1)")
    rb = prog.body("brush_core::regex::RegexPiece::to_regex_str")
    if chk.anchor("R4.4", "brush_core::regex::RegexPiece::to_regex_str", rb):
        sws = enum_switches(prog, rb, "brush_core::regex::RegexPiece")
        ok = False
        if sws:
            sbb, m, other, rest, _ = sws[0]
            tg = dict(m)
            for r in rest:
                tg[r] = other
            regs = arm_regions(rb, sbb, tg)
            lit = regs.get("Literal", set())
            if any(rb.blocks[bb].term.kind == "call" and (rb.blocks[bb].term.callee or "").endswith("escape_literal_regex_piece") for bb in lit):
                ok = True
        if ok:
            chk.ok("R4.4", "regex-literal-escaped", "Literal arm calls escape_literal_regex_piece", function=rb.name)
        else:
            chk.fail("R4.4", rb.name, "regex-literal-not-escaped", "RegexPiece::Literal is emitted without escape_literal_regex_piece: quoted text in `=~` is interpreted as regex syntax")

    # ---- R4.5 taint -------------------------------------------------------------------------------------
    chk.rule("R4.5", "no text derived from variable values / positional parameters / command-substitution output reaches a word or program "
                     "parser in brush_core::expansion (reviewed by-design exceptions listed)")
    nsinks = 0
    for b in prog.all_bodies({"brush_core"}):
        if not b.name.startswith(EXP) and not b.name.startswith("<" + EXP):
            continue
        d = None
        for bb, t in b.calls():
            bc = t.best_callee() or ""
            idx = SINKS.get(bc, SINKS.get(t.callee or ""))
            if idx is None or idx >= len(t.args):
                continue
            nsinks += 1
            d = d or defs_of(b)
            flows = flow_back(b, d, t.args[idx], all_args=True)
            hit = None
            for f in flows:
                for v in f.via:
                    if v in SOURCES:
                        hit = v
            fn = owner(b.name)
            key = "%s<-%s" % (bc.rsplit("::", 1)[-1], (hit or "").rsplit("::", 1)[-1])
            if hit is None:
                chk.ok("R4.5", "sink:%s@%s:%s" % (bc.rsplit("::", 1)[-1], fn.rsplit("::", 1)[-1], t.line), "text argument does not derive from an expansion result", function=fn)
            elif (fn, bc) in REPARSE_ALLOWED:
                chk.ok("R4.5", "by-design:%s" % key, REPARSE_ALLOWED[(fn, bc)], nontrivial=False, function=fn)
            else:
                chk.fail("R4.5", fn, "reparse:" + key,
                         "%s passes text derived from %s to %s at %s: the *content* of an expansion is parsed as shell syntax again" % (fn, hit, bc, b.loc(t.line)))
    chk.floor("R4.5", "parser sink call sites in brush_core::expansion", nsinks, 8)
    glob_activity_rule(prog, chk)
    positional_join_rule(prog, chk)
    star_joiner_rule(prog, chk)
    herestring_newline_rule(prog, chk)


GLOB_DETECTOR = "brush_parser::pattern::pattern_has_glob_metacharacters"
PATTERN_PIECE = "brush_core::patterns::PatternPiece"


def glob_activity_rule(prog, chk):
    """R4.6: the question "does this word contain an active glob" is asked of unquoted text only.
    Every call of the glob-metacharacter detector (or of a wrapper that forwards its &str parameter to it) in the
    shipped crates receives either (a) a forwarded text parameter (the body becomes a wrapper and its callers are
    checked), or (b) PatternPiece::as_str of a piece on the `Pattern` arm of a discriminant test (matches!/match) —
    i.e. a piece that came from an unquoted expansion. Text assembled from whole piece lists (Literal pieces
    included) makes the content of a quoted expansion count as glob syntax: nullglob then deletes the argument and
    failglob aborts the command."""
    chk.rule("R4.6", "glob activity (pattern_has_glob_metacharacters and its wrappers) is decided from PatternPiece::Pattern text only: every "
                     "detector call gets a forwarded parameter or as_str() of a piece on the Pattern arm of a discriminant test")
    detectors = {GLOB_DETECTOR}
    checked = set()
    nsites = 0
    changed = True
    while changed:
        changed = False
        for b, bb, t in prog.callers_of(*detectors, crates=SHIPPED):
            key = (b.name, bb)
            if key in checked or not t.args:
                continue
            checked.add(key)
            nsites += 1
            fn = owner(b.name)
            d = defs_of(b)
            flows = flow_back(b, d, t.args[0], all_args=True)
            vias = set()
            for f in flows:
                vias |= set(f.via)
            terms = [f for f in flows if f.kind in ('arg', 'unknown', 'const')]
            # (a) wrapper: the text is a parameter of the body itself and nothing piece-shaped is involved
            arg_tys = {canon(b.local_ty(f.node)) for f in terms if f.kind == 'arg'}
            piece_involved = any("PatternPiece" in v for v in vias) or any("PatternPiece" in ty or "PatternWord" in ty for ty in arg_tys)
            if terms and all(f.kind == 'arg' for f in terms) and not piece_involved and all(ty in ("&str", "&alloc::string::String", "alloc::string::String") for ty in arg_tys) \
                    and b.kind not in ("closure", "coroutine"):
                if b.name not in detectors:
                    detectors.add(b.name)
                    changed = True
                chk.ok("R4.6", "wrapper:" + fn, "forwards its text parameter to the detector; callers are checked instead", nontrivial=False, function=fn)
                continue
            # (b) guarded piece
            if not any(v.endswith("PatternPiece::as_str") for v in vias):
                chk.fail("R4.6", fn, "glob-test-on-unclassified-text:" + short(t.best_callee() or ""),
                         "%s asks whether text is an active glob at %s, but the text is not PatternPiece::as_str() of a single piece (it flows from %s): "
                         "characters that came from a quoted expansion are counted as glob syntax"
                         % (fn, b.loc(t.line), sorted(short(v) for v in vias)[:6] or sorted(arg_tys)))
                continue
            c = cfg_of(b)
            guarded = False
            for sbb, m, other, rest, place in enum_switches(prog, b, PATTERN_PIECE):
                if "Pattern" not in m and "Pattern" not in rest:
                    continue
                tg = dict(m)
                for r in rest:
                    tg[r] = other
                res = {n: resolve_bool_arm(b, x) for n, x in tg.items()}
                if not c.dominates(sbb, bb):
                    continue
                on_pat = bb in c.reachable_from(res["Pattern"], avoid=[sbb])
                on_other = any(bb in c.reachable_from(x, avoid=[sbb]) for n, x in res.items() if n != "Pattern" and x != res["Pattern"])
                if on_pat and not on_other:
                    guarded = True
            # every piece-shaped input must be the one as_str receiver: nothing collected from a list of pieces
            collected = [v for v in vias if v.endswith(("Iterator::collect", "::concat", "::join", "String::push_str", "FromIterator>::from_iter"))]
            if guarded and not collected:
                chk.ok("R4.6", "pattern-arm-only@%s" % fn, "detector called only on the Pattern arm of the piece's discriminant test", function=fn)
            elif collected:
                chk.fail("R4.6", fn, "glob-test-on-concatenated-pieces", "%s tests text concatenated from several pieces (%s) at %s: quoted pieces take part in the glob decision"
                         % (fn, short(collected[0]), b.loc(t.line)))
            else:
                chk.fail("R4.6", fn, "glob-test-on-literal-piece",
                         "%s calls the glob detector on PatternPiece::as_str() at %s without restricting the piece to PatternPiece::Pattern: a quoted "
                         "(Literal) piece's characters decide whether the word is a glob" % (fn, b.loc(t.line)))
    chk.floor("R4.6", "glob-detector call sites (wrappers included)", nsites, 2)


def _closure_calls(prog, cb, callee):
    for bl in cb.blocks:
        for s in bl.stmts:
            if s.kind == 'a' and s.rv.kind == 'agg' and s.rv.raw.get("ak") == "closure":
                inner = prog.body(canon(s.rv.raw["def"]))
                if inner is not None and (call_sites(inner, {callee}) or _closure_calls(prog, inner, callee)):
                    return True
        t = bl.term
        for a in t.args:
            if a.const is not None and a.const.fn and canon(a.const.fn) == callee:
                return True
    return False


def _flag_pair(chk, b, rid, around, value=1):
    """store in_double_quotes = <value>, call `around`, restore from a saved copy on every path to Return"""
    c = cfg_of(b)
    d = defs_of(b)
    stores = field_stores(b, "expansion::WordExpander", "in_double_quotes")
    sets = [(bb, i, s) for bb, i, s in stores if s.rv.kind == 'use' and const_value(b, d, s.rv.ops[0]) == value]
    restores = [(bb, i, s) for bb, i, s in stores if not (s.rv.kind == 'use' and const_value(b, d, s.rv.ops[0]) is not None)]
    calls = [bb for bb, t in b.calls() if (t.best_callee() or "") == around]
    fn = owner(b.name)
    if not sets or not restores or not calls:
        chk.fail(rid, fn, "quote-flag-pair-anchors", "in_double_quotes set/restore/call not found in %s (%d, %d, %d)" % (fn, len(sets), len(restores), len(calls)))
        return
    for sbb, i, s in sets:
        p = c.escapes(sbb, [x for x, _, _ in restores], c.return_blocks(), after=True)
        if p is not None:
            chk.fail(rid, fn, "quote-flag-not-restored", "%s: a path from `in_double_quotes = %s` reaches Return without restoring the flag: later words are expanded with the wrong quoting state (%s)" % (fn, bool(value), p))
        else:
            chk.ok(rid, "quote-flag-pair:" + fn.rsplit("::", 1)[-1], "flag restored on every path (error exits included)", function=fn)


def positional_join_rule(prog, chk):
    """R4.7: lists of fields / array elements are joined by position. The separator of `"$*"`, `"${a[*]}"` and scalar joins sits between
    every two neighbours, empty ones included; a loop that decides "not the first element" by looking at whether the text accumulated so
    far is non-empty drops the separators that follow leading empty elements (`set -- "" "" x; IFS=:; echo "$*"` → `x` instead of `::x`).
    Flagged shape, inside one source loop of a body of brush_core::{expansion,variables}: accumulator A receives `push`/`push_str` of a
    separator on the non-empty edge of `A.is_empty()` / `A.len()`, and A also receives the loop's element."""
    from dataflow import base_local
    chk.rule("R4.7", "no join loop in the expansion / variable code places its separator according to whether the accumulated text is empty "
                     "(joins are positional: Itertools::join / intersperse / index tests)")
    nloops = 0
    njoins = 0
    for b in prog.all_bodies({"brush_core"}):
        fn = owner(b.name)
        if not (fn.startswith(("brush_core::expansion::", "brush_core::variables::", "<brush_core::expansion::", "<brush_core::variables::"))):
            continue
        for _, t in b.calls():
            if (t.best_callee() or t.callee or "").endswith(("Itertools::join", "Itertools::intersperse", "[T]::join", "Iterator::intersperse")):
                njoins += 1
        c = cfg_of(b)
        loops = c.source_loops()
        if not loops:
            continue
        d = defs_of(b)
        for h, blks in loops.items():
            pushes = [(bb, t) for bb, t in b.calls() if bb in blks and (t.best_callee() or "") in ("alloc::string::String::push", "alloc::string::String::push_str")]
            if not pushes:
                continue
            nloops += 1
            for bb, t in pushes:
                acc = base_local(b, d, t.args[0])
                if acc is None:
                    continue
                others = [x for x, t2 in pushes if x != bb and base_local(b, d, t2.args[0]) == acc]
                if not others:
                    continue
                for g in blks:
                    tt = b.blocks[g].term
                    if tt.kind != "switch" or g == bb or not c.dominates(g, bb):
                        continue
                    for o in origins(b, d, tt.discr, through_ops=True):
                        if o.kind == 'call' and (o.node.best_callee() or "").endswith(("String::is_empty", "String::len", "str::is_empty", "str::len")) \
                                and base_local(b, d, o.node.args[0]) == acc:
                            # which edge leads to the push? is_empty == false / len != 0
                            f_edge, t_edge = [x for v, x in tt.targets if v == 0], tt.otherwise
                            empty_call = (o.node.best_callee() or "").endswith("is_empty")
                            negated = any(x.kind == 'op' and x.node.kind == 'un' for x in origins(b, d, tt.discr, through_ops=False))
                            nonempty_edge = (f_edge[0] if f_edge else None) if (empty_call and not negated) else t_edge
                            if empty_call and negated:
                                nonempty_edge = t_edge
                            if nonempty_edge is not None and bb in c.reachable_from(nonempty_edge, avoid=[g]) and \
                                    not all(bb in c.reachable_from(s, avoid=[g]) for s in c.succ[g]):
                                chk.fail("R4.7", fn, "separator-by-accumulated-emptiness:" + (b.local_name(acc) or "acc"),
                                         "%s joins elements in a loop and inserts the separator only when `%s` is already non-empty (line %s): separators after "
                                         "leading empty elements are lost — with two empty leading positional parameters and IFS=: the quoted $* prints `x`, not `::x`"
                                         % (fn, b.local_name(acc) or "the accumulator", t.line))
    chk.note("expansion_loops_with_string_pushes", nloops)
    chk.floor("R4.7", "positional joins (join / intersperse) in expansion and variable code", njoins, 3)
    chk.ok("R4.7", "joins-are-positional", "%d loops that push to a String examined; %d positional joins" % (nloops, njoins), function="brush_core::expansion")


def star_joiner_rule(prog, chk):
    """R4.8: `"$*"` / `"${a[*]}"` join with the first character of IFS — and with *nothing* when IFS is set to the empty string (a space
    only when IFS is unset). The function that yields the joiner must keep the empty case apart: returning a `char` obtained with
    `unwrap_or(' ')` from `ifs().chars().next()` maps the empty IFS onto a space."""
    from dataflow import flow_back
    chk.rule("R4.8", "the joiner of \"$*\" distinguishes an empty IFS (join with nothing) from an unset one (space): it is not "
                     "`ifs().chars().next().unwrap_or(' ')`")
    b = prog.body("brush_core::shell::Shell::get_ifs_first_char")
    if not chk.anchor("R4.8", "Shell::get_ifs_first_char", b):
        return
    d = defs_of(b)
    collapsed = False
    for bb, t in b.calls():
        cal = t.best_callee() or t.callee or ""
        if cal.endswith("Option::unwrap_or") and len(t.args) == 2:
            dflt = [f for f in flow_back(b, d, t.args[1]) if f.kind == 'const']
            src = {v for f in flow_back(b, d, t.args[0]) for v in f.via}
            if dflt and any(v.endswith("Iterator>::next") or v.endswith("str::chars") for v in src) and b.ret == "char":
                collapsed = True
    if collapsed:
        chk.fail("R4.8", b.name, "empty-ifs-joins-with-space",
                 "get_ifs_first_char returns `ifs().chars().next().unwrap_or(' ')`: with IFS set to the empty string the quoted $* and ${a[*]} are joined with a space "
                 "instead of nothing — `IFS=; set -- x y; echo \"$*\"` prints `x y` (bash `xy`)")
    else:
        chk.ok("R4.8", "empty-ifs-kept-apart", "the joiner function does not collapse the empty IFS onto a default character", function=b.name)


def herestring_newline_rule(prog, chk):
    """R4.9: a here-string delivers the expanded word followed by exactly one newline — always. The push of the newline onto the text
    that is handed to setup_open_file_with_contents must be unconditional: making it depend on the value (e.g. "unless it already ends
    in a newline") makes `$'a\n'` and `a` indistinguishable for the reader."""
    from dataflow import flow_back
    chk.rule("R4.9", "here-strings: the newline appended to the expanded word is pushed unconditionally before the contents are handed to the pipe")
    b = prog.impl_body("brush_core::interp::setup_redirect")
    if not chk.anchor("R4.9", "brush_core::interp::setup_redirect", b):
        return
    c = cfg_of(b)
    d = defs_of(b)
    n = 0
    for ob, ot in b.calls():
        if not (ot.best_callee() or "").endswith("interp::setup_open_file_with_contents"):
            continue
        fl = flow_back(b, d, ot.args[0], all_args=False)
        if not any(v.endswith("expansion::basic_expand_word") for f in fl for v in f.via):
            continue          # the here-document arm takes its text from the parsed document
        roots = {f.local for f in fl if f.local is not None}
        pushes = []
        for pb, pt in b.calls():
            if (pt.best_callee() or "") == "alloc::string::String::push" and len(pt.args) == 2 and const_value(b, d, pt.args[1]) == 10:
                pl = base_local(b, d, pt.args[0])
                if pl in roots or pl is not None and any(pl == base_local(b, d, ot.args[0]) for _ in [0]):
                    pushes.append(pb)
        n += 1
        if not pushes:
            chk.fail("R4.9", b.name, "herestring-newline-missing", "no newline is appended to the here-string text before it is written to the pipe")
        elif any(c.dominates(pb, ob) for pb in pushes):
            chk.ok("R4.9", "herestring-newline-unconditional", "push('\\n') dominates setup_open_file_with_contents", function=b.name)
        else:
            chk.fail("R4.9", b.name, "herestring-newline-conditional",
                     "the newline that terminates a here-string is appended only on some paths (line %s): a value that already ends in a newline arrives one byte "
                     "short, so a reader cannot tell `a` from `a` followed by a newline" % b.blocks[pushes[0]].term.line)
    chk.floor("R4.9", "here-string content sites", n, 1)
