"""C17 — `wait` really waits (DESIGN §3 C17)."""
from rulelib import SHIPPED, call_sites, callgraph, cfg_of, defs_of, owner, short
from dataflow import field_stores, forward_taint, origins, rvalue_origins
from facts import canon

JM = "brush_core::jobs::JobManager"
JOB = "brush_core::jobs::Job"
TASK = "brush_core::jobs::JobTask"
SPAWN = "tokio::task::spawn::spawn"

SPAWN_ROLES = {
    # owner -> (role, reason)
    "brush_core::interp::spawn_async_ao_list_in_task": ("job", "background and-or list"),
    "<brush_parser::ast::CoprocessCommand as brush_core::interp::Execute>::execute": ("job", "coprocess body"),
    "brush_core::commands::invoke_command_in_subshell_and_get_output": ("awaited", "command substitution: joined in the same function"),
    "brush_core::interp::setup_process_substitution": ("detached", "process substitution: bash does not join it either; result intentionally ignored"),
}
POLLERS = {"futures_util::future::future::FutureExt::now_or_never", TASK + "::poll", JOB + "::poll_done", JM + "::poll",
           "brush_core::processes::ChildProcess::poll"}


def run(prog, chk):
    chk.explanation = (
        "Static decision of the job bookkeeping protocol: every tokio::spawn in brush_core is registered as a job on every path, "
        "joined in place, or a reviewed detached spawn; `wait` → wait_all → Job::wait → JobTask::wait is a chain of awaits inside "
        "loops that only end when the collection is exhausted (no error exit leaves a loop early, an awaited task is always removed, "
        "no link polls); job ids are not derived from the table length while removal from the middle exists. Not decided: "
        "happens-before of job effects, output ordering, schedules.")
    chk.assumptions = ["rustc MIR", "await = awaited call; tokio JoinHandle semantics"]
    # ---- R17.1 spawn -> register ------------------------------------------------------------------
    chk.rule("R17.1", "each tokio::spawn result is moved into Job::new + add_as_current on every path (job), awaited in the same body "
                      "(awaited) or listed as detached with a reason")
    sites = prog.callers_of(SPAWN, crates={"brush_core", "brush_builtins"})
    chk.floor("R17.1", "tokio::spawn sites", len(sites), 4)
    for b, bb, t in sites:
        fn = owner(b.name)
        role = SPAWN_ROLES.get(fn)
        if role is None:
            chk.fail("R17.1", fn, "unclassified-spawn", "tokio::spawn at %s is not a reviewed job/awaited/detached spawn: its task is invisible to `wait`" % b.loc(t.line))
            continue
        c = cfg_of(b)
        tainted = forward_taint(b, {t.dest.local})
        if role[0] == "job":
            adds = [(x, tt) for x, tt in call_sites(b, {JM + "::add_as_current"})
                    if any(a.place is not None and a.place.local in tainted for a in tt.args)]
            if not adds:
                chk.fail("R17.1", fn, "spawn-not-registered", "the JoinHandle of the spawn at %s never reaches JobManager::add_as_current" % b.loc(t.line))
                continue
            p = c.escapes(bb, [x for x, _ in adds], c.return_blocks(), after=True)
            if p is not None:
                chk.fail("R17.1", fn, "spawn-registration-skippable", "a path from the spawn (line %s) returns without add_as_current: %s" % (t.line, p))
            else:
                chk.ok("R17.1", "job:" + fn, "JoinHandle flows into add_as_current, which post-dominates the spawn (%s)" % role[1], function=fn)
        elif role[0] == "awaited":
            aw = [(x, tt) for x, tt in b.calls() if tt.callee == "core::future::into_future::IntoFuture::into_future"
                  and tt.args[0].place is not None and tt.args[0].place.local in tainted]
            if aw:
                chk.ok("R17.1", "awaited:" + fn, role[1], function=fn)
            else:
                chk.fail("R17.1", fn, "spawn-not-awaited", "JoinHandle of the spawn at %s is neither registered nor awaited" % b.loc(t.line))
        else:
            chk.ok("R17.1", "detached:" + fn, role[1], nontrivial=False, function=fn)
    for fn in SPAWN_ROLES:
        if fn not in {owner(b.name) for b, _, _ in sites}:
            chk.fail("R17.1", fn, "spawn-site-moved", "reviewed spawn site %s no longer calls tokio::spawn (table stale)" % fn, nontrivial=False)

    # ---- R17.2 wait chain ----------------------------------------------------------------------------
    chk.rule("R17.2", "wait (no ids) -> wait_all -> Job::wait -> JobTask::wait: each link is an awaited call inside a loop whose only "
                      "exit is exhaustion; an awaited task is removed on every path; no poll in the chain; sweep after the loop")
    wc = None
    for b in prog.all_bodies({"brush_builtins"}):
        if owner(b.name).startswith("<brush_builtins::wait::WaitCommand as") and call_sites(b, {JM + "::wait_all"}):
            wc = b
    if wc is None:
        chk.fail("R17.2", "brush_builtins::wait::WaitCommand", "wait-does-not-call-wait_all", "WaitCommand::execute no longer calls JobManager::wait_all")
    else:
        chk.ok("R17.2", "wait->wait_all", "WaitCommand::execute calls JobManager::wait_all", function=owner(wc.name))
        _bare_wait_always_waits(prog, chk, wc)
    wa = prog.impl_body(JM + "::wait_all")
    jw = prog.impl_body(JOB + "::wait")
    tw = prog.impl_body(TASK + "::wait")
    if chk.anchor("R17.2", JM + "::wait_all", wa) and chk.anchor("R17.2", JOB + "::wait", jw) and chk.anchor("R17.2", TASK + "::wait", tw):
        _loop_link(chk, wa, JM + "::wait_all", JOB + "::wait", removal=None)
        sw = call_sites(wa, {JM + "::sweep_completed_jobs"})
        c = cfg_of(wa)
        jws = call_sites(wa, {JOB + "::wait"})
        if sw and jws and all(x in c.reachable_after(jws[0][0]) for x, _ in sw):
            chk.ok("R17.2", "sweep-after-loop", "sweep_completed_jobs follows the wait loop", function=JM + "::wait_all")
        else:
            chk.fail("R17.2", JM + "::wait_all", "sweep-missing", "sweep_completed_jobs is not called after the wait loop")
        _loop_link(chk, jw, JOB + "::wait", TASK + "::wait", removal={"alloc::collections::vec_deque::VecDeque::pop_back",
                                                                      "alloc::collections::vec_deque::VecDeque::pop_front",
                                                                      "alloc::collections::vec_deque::VecDeque::remove"})
        # JobTask::wait awaits, never polls
        aw = [tt for _, tt in tw.calls() if tt.callee == "core::future::into_future::IntoFuture::into_future"]
        if len(aw) >= 2:
            chk.ok("R17.2", "task-awaits", "JobTask::wait awaits the process wait and the join handle (%d awaits)" % len(aw), function=TASK + "::wait")
        else:
            chk.fail("R17.2", TASK + "::wait", "task-wait-not-awaiting", "JobTask::wait has %d awaits (expected one per task kind)" % len(aw))
        for body, nm in ((wa, JM + "::wait_all"), (jw, JOB + "::wait"), (tw, TASK + "::wait")):
            bad = [tt.best_callee() for _, tt in body.calls() if tt.best_callee() in POLLERS or tt.callee in POLLERS]
            if bad:
                chk.fail("R17.2", nm, "polls:" + bad[0], "%s calls %s: `wait` would return for a job that is still running" % (nm, bad[0]))
            else:
                chk.ok("R17.2", "no-poll:" + nm, "no poll/now_or_never in this link", function=nm)

    # ---- R17.3 id freshness ----------------------------------------------------------------------------
    chk.rule("R17.3", "Job.id assigned in add_as_current does not derive solely from Vec::len of the job table while elements can be "
                      "removed from the middle of that table")
    ab = prog.impl_body(JM + "::add_as_current")
    if chk.anchor("R17.3", JM + "::add_as_current", ab):
        d = defs_of(ab)
        st = field_stores(ab, "jobs::Job", "id")
        chk.floor("R17.3", "stores to Job.id in add_as_current", len(st), 1)
        removes = []
        for b in prog.all_bodies({"brush_core"}):
            if owner(b.name).startswith(JM + "::"):
                for x, tt in b.calls():
                    if tt.callee in ("alloc::vec::Vec::remove", "alloc::vec::Vec::swap_remove", "alloc::vec::Vec::retain", "alloc::vec::Vec::drain"):
                        if any("jobs" in o.field_path() for a in tt.args[:1] for o in origins(b, defs_of(b), a)):
                            removes.append(owner(b.name))
        for sbb, si, s in st:
            os_ = rvalue_origins(ab, d, s)
            flat = []
            for o in os_:
                if o.kind == 'op':
                    flat.extend(origins(ab, d, o.node.ops[0], through_ops=True))
                    if len(o.node.ops) > 1:
                        flat.extend(origins(ab, d, o.node.ops[1], through_ops=True))
                else:
                    flat.append(o)
            srcs = set()
            for o in flat:
                if o.kind == 'const':
                    srcs.add("const")
                elif o.kind == 'call':
                    srcs.add(o.node.best_callee())
                else:
                    srcs.add(o.kind)
            only_len = srcs and srcs <= {"const", "alloc::vec::Vec::len"}
            if only_len and removes:
                chk.fail("R17.3", JM + "::add_as_current", "id-from-table-length",
                         "Job.id = jobs.len() + const while %s remove(s) from the middle of the table: two live jobs can share a number" % sorted(set(removes)))
                continue
            # positive form: with removal from the middle, a fresh id must be an upper bound of *all* live ids: it comes from a
            # max-like aggregation over the whole table, or from a counter field of the manager that only grows
            from dataflow import flow_back
            fl = flow_back(ab, d, s.rv.ops[0], all_args=True) if s.rv.ops else []
            vias = set()
            for f in fl:
                vias |= set(f.via)
            agg = [v for v in vias if v.endswith(("Iterator::max", "Iterator::max_by_key", "Iterator::max_by", "Iterator::fold", "cmp::max", "Ord::max",
                                                  "Iterator>::max", "Iterator::reduce", "Iterator::last"))]
            over_table = any("jobs" in f.field_path() for f in fl)
            counter = [f for f in fl if f.kind == 'arg' and f.field_path() and f.field_path()[-1] not in ("jobs", "id", "annotation")
                       and any(x in f.field_path()[-1] for x in ("next", "counter", "last_id", "seq"))]
            if (agg and over_table and not any(v.endswith("Iterator::last") for v in agg)) or counter:
                chk.ok("R17.3", "id-source", "id is %s; middle-removal sites: %s"
                       % ("a maximum over the ids of the whole table + 1" if agg else "taken from a monotonic counter field", sorted(set(removes))),
                       function=JM + "::add_as_current")
            elif removes:
                chk.fail("R17.3", JM + "::add_as_current", "id-not-a-bound-of-live-ids",
                         "the number given to a new job derives from %s, not from a maximum over all jobs in the table (nor from a counter that only grows), "
                         "while %s remove(s) jobs from the middle: once the job it was derived from has left the table a live job's number is handed out again"
                         % (sorted(short(x) if isinstance(x, str) else str(x) for x in srcs)[:5], sorted(set(removes))))
            else:
                chk.ok("R17.3", "id-source", "id derives from %s; no removal from the middle of the table" % sorted(srcs), nontrivial=False, function=JM + "::add_as_current")


def _loop_link(chk, body, name, callee, removal):
    c = cfg_of(body)
    sites = call_sites(body, {callee})
    if not sites:
        chk.fail("R17.2", name, "link-missing:" + callee, "%s no longer calls %s" % (name, callee))
        return
    loops = c.source_loops()
    for bb, t in sites:
        hs = [h for h, blks in loops.items() if bb in blks]
        if not hs:
            chk.fail("R17.2", name, "not-in-loop:" + callee, "%s calls %s outside a loop over the collection" % (name, callee))
            continue
        h = hs[0]
        rets = c.return_blocks()
        # (a) no path from the awaited call leaves the function without going back to the loop head
        #     (the only exit of the loop is its head's exhaustion edge), Stopped handling excepted via `allowed`
        allowed = []
        if removal is not None:
            # explicit non-completion exit: the store `state = Stopped` followed by return
            from dataflow import field_stores
            allowed = [x for x, _, _ in field_stores(body, "jobs::Job", "state")]
        p = c.escapes(bb, [h] + allowed, rets, after=True)
        if p is not None:
            errs = [x for x in p if x in set(c.error_exit_blocks())]
            chk.fail("R17.2", name, "early-exit-from-wait-loop",
                     "%s: a %s leaves the loop over the collection right after %s (line %s) — remaining entries are not waited for: blocks %s"
                     % (name, "`?` error exit" if errs else "path", callee, t.line, p), detail={"path_blocks": p})
        else:
            chk.ok("R17.2", "loop-exhaustive:" + name, "after %s every path returns to the loop head" % callee, function=name)
        if removal is not None:
            rem = [x for x, _ in call_sites(body, removal)]
            p = c.escapes(bb, rem + allowed, [h] + rets, after=True)
            if p is not None:
                chk.fail("R17.2", name, "awaited-task-not-removed",
                         "%s: a path from %s (line %s) reaches the loop head / Return without removing the task: a finished JoinHandle is "
                         "awaited again: blocks %s" % (name, callee, t.line, p), detail={"path_blocks": p})
            else:
                chk.ok("R17.2", "task-removed:" + name, "every path after the await removes the task (or records Stopped)", function=name)


def _bare_wait_always_waits(prog, chk, wc):
    """R17.4: `wait` without operands has no shortcut. From the `ids.is_empty()` edge of WaitCommand::execute every path to a normal
    return passes the awaited wait_all call; a test of some summary of the job table (current job, count, a flag) that returns early
    would let `wait` come back while an older job is still running."""
    from dataflow import flow_back
    chk.rule("R17.4", "wait without operands: every non-error path from the `no ids` edge to the return passes JobManager::wait_all (no fast path)")
    c = cfg_of(wc)
    d = defs_of(wc)
    was = [bb for bb, _ in call_sites(wc, {JM + "::wait_all"})]
    edges = []
    for bl in wc.blocks:
        t = bl.term
        if t.kind != "switch":
            continue
        for o in origins(wc, d, t.discr, through_ops=True):
            if o.kind == 'call' and (o.node.best_callee() or o.node.callee or "").endswith("Vec::is_empty") \
                    and any("ids" in f.field_path() for f in flow_back(wc, d, o.node.args[0], all_args=False)):
                f_edge = [tg for v, tg in t.targets if v == 0]
                # is_empty() == true -> otherwise edge (a negation in between is folded by MIR into the edge order)
                negated = any(x.kind == 'op' and getattr(x.node, "op", "") == "Not" for x in origins(wc, d, t.discr, through_ops=True))
                edges.append(f_edge[0] if negated and f_edge else t.otherwise)
    chk.floor("R17.4", "tests of ids.is_empty() in WaitCommand::execute", len(edges), 1)
    for e in edges:
        if e in was or not was:
            continue
        # the edge on which wait_all is reachable is the `no ids` edge
        if not any(w in c.reachable_from(e) for w in was):
            continue
        # a shortcut on "the job table itself is empty" changes nothing: wait_all over an empty table returns at once
        benign = []
        for x in c.reachable_from(e):
            tx = wc.blocks[x].term
            if tx.kind == "switch":
                for o in origins(wc, d, tx.discr):
                    if o.kind == 'call' and (o.node.best_callee() or o.node.callee or "").endswith("Vec::is_empty"):
                        rf = flow_back(wc, d, o.node.args[0], all_args=False)
                        if rf and any(f.fields() and f.fields()[-1][1] == "jobs" and f.fields()[-1][0].endswith("jobs::JobManager") for f in rf):
                            benign.append(tx.otherwise)
        w = c.escapes(e, was, c.return_blocks(), after=False, avoid=list(c.error_exit_blocks()) + benign)
        if w is None:
            chk.ok("R17.4", "bare-wait-always-waits", "wait_all cuts every path from the `no ids` edge to the return", function=owner(wc.name))
        else:
            chk.fail("R17.4", owner(wc.name), "bare-wait-returns-without-waiting",
                     "`wait` without operands can return without calling JobManager::wait_all (path via lines %s): a shortcut that looks at a summary of the job "
                     "table (no current job, …) returns while an older job is still running"
                     % sorted({wc.blocks[x].term.line for x in w})[:6])
