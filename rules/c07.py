"""C07 — arithmetic (DESIGN §3 C07): total & wrapping evaluator, precedence table, operator tables,
structural short-circuit, deref depth guard."""
import os
import re

import peg
from rulelib import (SHIPPED, arm_regions, bool_edges, call_sites, cfg_of, defs_of, enum_switches, owner, short)
from dataflow import const_value, origins
from facts import canon

REPO = os.environ.get("BRUSH_REPO", "/repo")
EVAL = "brush_core::arithmetic::eval_expr_impl"

TRAPPING = {"Add", "Sub", "Mul", "Div", "Rem", "Shl", "Shr", "AddWithOverflow", "SubWithOverflow", "MulWithOverflow",
            "AddUnchecked", "SubUnchecked", "MulUnchecked", "ShlUnchecked", "ShrUnchecked"}

# bash manual, "Shell Arithmetic", lowest → highest precedence; assoc L/R; the grammar's own split of
# prefix operators into several levels is immaterial for prefix operators and accepted as listed.
REF_LEVELS = [
    ({","}, "L"),
    ({"*=", "/=", "%=", "+=", "-=", "<<=", ">>=", "&=", "|=", "^=", "="}, "R"),
    ({"?"}, "R"),
    ({"||"}, "L"),
    ({"&&"}, "L"),
    ({"|"}, "L"),
    ({"^"}, "L"),
    ({"&"}, "L"),
    ({"==", "!="}, "L"),
    ({"<", ">", "<=", ">="}, "L"),
    ({"<<", ">>"}, "L"),
    ({"+", "-"}, "L"),
    ({"*", "%", "/"}, "L"),
    ({"**"}, "R"),
    ({"!", "~"}, "P"),
    ({"+", "-"}, "P"),
    ({"++", "--"}, "P"),
    ({"++", "--"}, "S"),
]

REF_BINARY = {",": "Comma", "||": "LogicalOr", "&&": "LogicalAnd", "|": "BitwiseOr", "^": "BitwiseXor", "&": "BitwiseAnd",
              "==": "Equals", "!=": "NotEquals", "<": "LessThan", ">": "GreaterThan", "<=": "LessThanOrEqualTo",
              ">=": "GreaterThanOrEqualTo", "<<": "ShiftLeft", ">>": "ShiftRight", "+": "Add", "-": "Subtract",
              "*": "Multiply", "%": "Modulo", "/": "Divide", "**": "Power"}
REF_ASSIGN = {"*=": "Multiply", "/=": "Divide", "%=": "Modulo", "+=": "Add", "-=": "Subtract", "<<=": "ShiftLeft",
              ">>=": "ShiftRight", "&=": "BitwiseAnd", "|=": "BitwiseOr", "^=": "BitwiseXor", "=": None}
REF_UNARY = {"!": "LogicalNot", "~": "BitwiseNot", "+": "UnaryPlus", "-": "UnaryMinus"}
REF_INCDEC = {("++", "P"): "PrefixIncrement", ("--", "P"): "PrefixDecrement", ("++", "S"): "PostfixIncrement", ("--", "S"): "PostfixDecrement"}

# evaluator: BinaryOperator variant -> resolved callee or MIR op
REF_EVAL_BINARY = {
    "Power": "brush_core::arithmetic::wrapping_pow_u64", "Multiply": "i64::wrapping_mul", "Divide": "i64::wrapping_div",
    "Modulo": "i64::wrapping_rem", "Add": "i64::wrapping_add", "Subtract": "i64::wrapping_sub",
    "ShiftLeft": "i64::wrapping_shl", "ShiftRight": "i64::wrapping_shr",
    "LessThan": "op:Lt", "LessThanOrEqualTo": "op:Le", "GreaterThan": "op:Gt", "GreaterThanOrEqualTo": "op:Ge",
    "Equals": "op:Eq", "NotEquals": "op:Ne", "BitwiseAnd": "op:BitAnd", "BitwiseXor": "op:BitXor", "BitwiseOr": "op:BitOr",
    "Comma": "value:right",
}
REF_EVAL_UNARY = {"UnaryPlus": "value:operand", "UnaryMinus": "i64::wrapping_neg", "BitwiseNot": "op:Not", "LogicalNot": "op:Eq"}


def _alt_info(alt):
    lits = [e["text"] for e in alt if e["kind"] == "lit"]
    precs = [(e["text"], i) for i, e in enumerate(alt) if e["kind"] == "prec"]
    action = " ".join(e["text"] for e in alt if e["kind"] == "action")
    first_lit_idx = next((i for i, e in enumerate(alt) if e["kind"] == "lit"), None)
    return lits, precs, action, first_lit_idx


def run(prog, chk):
    chk.explanation = (
        "Totality: no trapping i64 MIR operation exists in the evaluator or literal parser (only wrapping_* calls; division, modulo and "
        "power are behind their zero/negative tests). Tables: the precedence!{} levels and associativity markers of the arithmetic "
        "grammar equal the bash/C reference; every operator literal maps to the reference AST variant; every evaluator match arm maps "
        "to the reference operation. Structure: && || ?: evaluate their second operand only under the test of the first; assignments "
        "evaluate the right-hand side first; the recursive dereference is depth-guarded. Not decided: literal values, printed results.")
    chk.assumptions = ["rustc MIR", "peg precedence!{} semantics: `x:(@) op y:@` left-assoc, `x:@ op y:(@)` right-assoc; levels listed lowest first",
                       "reference table: bash manual 'Shell Arithmetic'"]

    # ---- R7.1 totality ---------------------------------------------------------------------------------
    chk.rule("R7.1", "no trapping integer operation on i64 in brush_core::arithmetic and the arithmetic literal parser; div/rem/pow guarded")
    nbod = 0
    nwrap = 0
    for b in prog.all_bodies({"brush_core", "brush_parser"}):
        if not (b.name.startswith("brush_core::arithmetic::") or b.name.startswith("brush_parser::arithmetic::")
                or b.name.startswith("<brush_parser::ast::ArithmeticExpr as brush_core::arithmetic")):
            continue
        nbod += 1
        fn = owner(b.name)
        for bl in b.blocks:
            if bl.cleanup:
                continue
            for s in bl.stmts:
                if s.kind == 'a' and s.rv.kind == 'bin' and s.rv.op in TRAPPING and s.rv.ty == "i64":
                    chk.fail("R7.1", fn, "trapping:%s:i64" % s.rv.op.replace("WithOverflow", ""),
                             "%s performs a trapping `%s` on i64 at %s: user-controlled operands abort the shell on overflow (use wrapping_*)"
                             % (fn, s.rv.op, b.loc(s.line)))
                if s.kind == 'a' and s.rv.kind == 'un' and s.rv.op == "Neg" and s.rv.ty == "i64":
                    chk.fail("R7.1", fn, "trapping:Neg:i64", "%s negates an i64 with the trapping operator at %s (i64::MIN aborts)" % (fn, b.loc(s.line)))
            t = bl.term
            if t.kind == "call" and (t.callee or "").startswith("i64::wrapping_"):
                nwrap += 1
            if t.kind == "call" and t.callee in ("i64::pow", "i64::abs", "i64::checked_pow") :
                chk.fail("R7.1", fn, "panicking-api:" + t.callee, "%s calls %s at %s" % (fn, t.callee, b.loc(t.line)))
    chk.ok("R7.1", "no-trapping-i64", "%d bodies of the evaluator/literal parser scanned" % nbod)
    chk.floor("R7.1", "evaluator bodies", nbod, 15)
    chk.floor("R7.1", "i64::wrapping_* call sites", nwrap, 10)
    # role-derived: the body of brush_core::arithmetic holding the big match on BinaryOperator (today apply_binary_op)
    ab = None
    best = 0
    for cand in prog.all_bodies({"brush_core"}):
        if cand.name.startswith("brush_core::arithmetic::") and "::tests::" not in cand.name:
            for sw in enum_switches(prog, cand, "brush_parser::ast::BinaryOperator"):
                if len(sw[1]) > best:
                    best = len(sw[1])
                    ab = cand
    if chk.anchor("R7.1", "operator table (largest match on BinaryOperator in brush_core::arithmetic)", ab):
        c = cfg_of(ab)
        d = defs_of(ab)
        for callee, opname, what in (("i64::wrapping_div", "Eq", "right == 0"), ("i64::wrapping_rem", "Eq", "right == 0"),
                                     ("brush_core::arithmetic::wrapping_pow_u64", "Ge", "right >= 0")):
            sites = call_sites(ab, {callee})
            if not sites:
                chk.fail("R7.1", ab.name, "missing:" + callee, "apply_binary_op no longer calls %s" % callee)
                continue
            sbb, st = sites[0]
            ok = False
            for bl in ab.blocks:
                t = bl.term
                if t.kind != "switch" or not c.dominates(bl.idx, sbb) or t.ty != "bool":
                    continue
                for o in origins(ab, d, t.discr):
                    if o.kind == 'op' and o.node.kind == 'bin' and o.node.op == opname and const_value(ab, d, o.node.ops[1]) == 0:
                        f, tr = bool_edges(t)
                        bad_edge = tr if opname == "Eq" else f
                        if bad_edge is not None and c.path(bad_edge, [sbb]) is None:
                            ok = True
            if ok:
                chk.ok("R7.1", "guard:" + callee.rsplit("::", 1)[-1], "%s only under the complement of `%s`" % (callee, what) if opname == "Eq" else "%s only under `%s`" % (callee, what), function=ab.name)
            else:
                chk.fail("R7.1", ab.name, "unguarded:" + callee.rsplit("::", 1)[-1], "%s is reachable without the `%s` test" % (callee, what))

    # ---- R7.2 / R7.3 grammar tables --------------------------------------------------------------------------
    chk.rule("R7.2", "precedence!{} levels and associativity of the arithmetic grammar equal the bash reference")
    chk.rule("R7.3", "operator literal → AST variant (grammar) and AST variant → operation (evaluator) equal the reference tables")
    g = peg.load(os.path.join(REPO, "brush-parser/src/arithmetic.rs")).get("arithmetic", {})
    if "expression" not in g:
        chk.fail("R7.2", "brush_parser::arithmetic", "grammar-missing", "rule `expression` of grammar `arithmetic` not found")
    else:
        lv = peg.precedence_levels(g["expression"])
        got = []
        nbin = nun = nincdec = nassign = 0
        prefix_shaped_assign = []
        for lvl in lv:
            ops = set()
            kinds = set()
            for alt in lvl:
                lits, precs, action, fl = _alt_info(alt)
                if not precs or not lits:
                    if not precs and "UnaryAssignment" in action and lits:
                        # ++x / x++ : position of literal vs lvalue
                        pos = "P" if alt[0]["kind"] == "lit" else "S"
                        ops.add(lits[0])
                        kinds.add(pos)
                        nincdec += 1
                        m = re.search(r"UnaryAssignmentOperator :: (\w+)", action)
                        want = REF_INCDEC.get((lits[0], pos))
                        if m and m.group(1) == want:
                            chk.ok("R7.3", "incdec:%s%s" % (lits[0], pos), "%s → %s" % (lits[0], want))
                        else:
                            chk.fail("R7.3", "brush_parser::arithmetic::expression", "incdec:%s%s" % (lits[0], pos),
                                     "`%s` (%s) constructs %s, reference %s" % (lits[0], "prefix" if pos == "P" else "postfix", m.group(1) if m else "?", want))
                    continue
                op = lits[0]
                ops.add(op)
                if alt[0]["kind"] == "lit":
                    kinds.add("P")
                    nun += 1
                    if op in ("+", "-") and len(alt) > 1 and alt[1]["kind"] in ("group", "class", "not", "lookahead"):
                        # the guard that keeps `--x` a pre-decrement must not also reject `--8` (a double sign): it has to ask for an lvalue
                        if "lvalue" in alt[1]["text"]:
                            chk.ok("R7.3", "sign-lookahead:" + op, "the lookahead after unary `%s` only rejects a second sign followed by an lvalue" % op)
                        else:
                            chk.fail("R7.3", "brush_parser::arithmetic::expression", "sign-lookahead-too-broad:" + op,
                                     "unary `%s` refuses any operand that starts with `%s` (lookahead `%s`): `$((%s%s8))` fails to parse although it is a double sign (bash: 8)"
                                     % (op, op, alt[1]["text"], op, op))
                    m = re.search(r"UnaryOperator :: (\w+)", action)
                    want = REF_UNARY.get(op)
                    if m and m.group(1) == want:
                        chk.ok("R7.3", "unary:" + op, "%s → %s" % (op, want))
                    else:
                        chk.fail("R7.3", "brush_parser::arithmetic::expression", "unary:" + op, "prefix `%s` constructs %s, reference %s" % (op, m.group(1) if m else "?", want))
                else:
                    first = alt[0]
                    last_prec = precs[-1][0]
                    if first["kind"] == "prec":
                        assoc = "L" if (first["text"] == "(@)" and last_prec == "@") else "R" if (first["text"] == "@" and last_prec == "(@)") else "?"
                    else:
                        assoc = "R" if last_prec == "(@)" else "?"   # lvalue op= rhs
                    kinds.add(assoc)
                    if "BinaryAssignment" in action or "ArithmeticExpr :: Assignment" in action:
                        nassign += 1
                        if first["kind"] != "prec":
                            prefix_shaped_assign.append(op)
                        m = re.search(r"BinaryAssignment \( ast :: BinaryOperator :: (\w+)", action)
                        want = REF_ASSIGN.get(op, "?")
                        gotv = m.group(1) if m else None
                        if gotv == want:
                            chk.ok("R7.3", "assign:" + op, "%s → %s" % (op, want or "Assignment"))
                        else:
                            chk.fail("R7.3", "brush_parser::arithmetic::expression", "assign:" + op, "`%s` constructs BinaryAssignment(%s), reference %s" % (op, gotv, want))
                    elif "Conditional" in action:
                        pass
                    else:
                        nbin += 1
                        m = re.search(r"BinaryOperator :: (\w+)", action)
                        want = REF_BINARY.get(op)
                        if m and m.group(1) == want:
                            chk.ok("R7.3", "binary:" + op, "%s → %s" % (op, want))
                        else:
                            chk.fail("R7.3", "brush_parser::arithmetic::expression", "binary:" + op, "`%s` constructs BinaryOperator::%s, reference %s" % (op, m.group(1) if m else "?", want))
            if ops:
                got.append((ops, "".join(sorted(kinds))))
        chk.floor("R7.3", "binary operators", nbin, 20)
        chk.floor("R7.3", "unary operators", nun, 4)
        chk.floor("R7.3", "inc/dec operators", nincdec, 4)
        chk.floor("R7.3", "assignment operators", nassign, 11)
        # R7.7: an assignment is an expression of the lowest precedence, not an operand. In rust-peg's precedence!{} an alternative that
        # does not start with `@` is prefix-shaped and is accepted wherever an operand is expected, whatever the binding strength of the
        # operator on its left: `2 * x = 3` parses as `2 * (x = 3)` instead of being rejected (its left side `2 * x` is not an lvalue).
        chk.rule("R7.7", "assignment alternatives of the arithmetic grammar are infix on a precedence placeholder (left side checked to be an "
                         "lvalue), not prefix-shaped `lvalue() op= (@)` alternatives that any tighter operator accepts as its right operand")
        if prefix_shaped_assign:
            chk.fail("R7.7", "brush_parser::arithmetic::expression", "assignment-accepted-as-operand",
                     "the %d assignment alternatives (%s …) start with `lvalue()` instead of `@`: rust-peg treats them as prefix operators, so an assignment is "
                     "accepted as the right operand of a tighter-binding operator — `$((2 * x = 3))` yields 6 and assigns x=3, bash: \"attempted assignment to "
                     "non-variable\" (a malformed expression must be a reported error)" % (len(prefix_shaped_assign), " ".join(prefix_shaped_assign[:4])))
        else:
            chk.ok("R7.7", "assignment-is-infix", "assignments bind at the lowest level with a checked left side", function="brush_parser::arithmetic::expression")
        # compare level sequence
        ref = [(o, a) for o, a in REF_LEVELS]
        if len(got) != len(ref):
            chk.fail("R7.2", "brush_parser::arithmetic::expression", "level-count", "%d operator levels in the grammar, reference has %d" % (len(got), len(ref)))
        for i, ((gops, ga), (rops, ra)) in enumerate(zip(got, ref)):
            if gops != rops:
                chk.fail("R7.2", "brush_parser::arithmetic::expression", "level:%d" % i,
                         "precedence level %d (lowest=0) holds %s, reference %s: operator precedence differs from C/bash" % (i, sorted(gops), sorted(rops)))
            elif ga != ra:
                chk.fail("R7.2", "brush_parser::arithmetic::expression", "assoc:%d" % i,
                         "level %d %s has associativity marker %s, reference %s" % (i, sorted(gops), ga, ra))
            else:
                chk.ok("R7.2", "level:%d:%s" % (i, " ".join(sorted(gops))), "assoc %s" % ga)

    # evaluator tables
    if ab is not None:
        c = cfg_of(ab)
        sws = enum_switches(prog, ab, "brush_parser::ast::BinaryOperator")
        if not sws:
            chk.fail("R7.3", ab.name, "eval-switch-missing", "no switch on BinaryOperator in apply_binary_op")
        else:
            sbb, m, other, rest, _ = max(sws, key=lambda x: len(x[1]))
            regs = arm_regions(ab, sbb, m)
            narm = 0
            for v, want in sorted(REF_EVAL_BINARY.items()):
                blks = regs.get(v)
                if blks is None:
                    chk.fail("R7.3", ab.name, "eval-arm-missing:" + v, "no match arm for BinaryOperator::%s" % v)
                    continue
                narm += 1
                gotop = _arm_operation(ab, blks)
                if want in gotop:
                    chk.ok("R7.3", "eval:" + v, "%s → %s" % (v, want), function=ab.name)
                else:
                    chk.fail("R7.3", ab.name, "eval:" + v, "BinaryOperator::%s evaluates with %s, reference %s" % (v, sorted(gotop), want))
            chk.floor("R7.3", "apply_binary_op arms", narm, 18)
    ub = prog.body("brush_core::arithmetic::apply_unary_op")
    if chk.anchor("R7.3", "brush_core::arithmetic::apply_unary_op", ub):
        sws = enum_switches(prog, ub, "brush_parser::ast::UnaryOperator")
        if sws:
            sbb, m, other, rest, _ = sws[0]
            tg = dict(m)
            for r in rest:
                tg[r] = other
            regs = arm_regions(ub, sbb, tg)
            for v, want in sorted(REF_EVAL_UNARY.items()):
                gotop = _arm_operation(ub, regs.get(v, set()))
                if want in gotop or (want == "value:operand" and not (gotop - {"value:operand"})):
                    chk.ok("R7.3", "eval-unary:" + v, "%s → %s" % (v, want), function=ub.name)
                else:
                    chk.fail("R7.3", ub.name, "eval-unary:" + v, "UnaryOperator::%s evaluates with %s, reference %s" % (v, sorted(gotop), want))
        else:
            chk.fail("R7.3", ub.name, "eval-switch-missing", "no switch on UnaryOperator")
    ia = prog.body("brush_core::arithmetic::apply_unary_assignment_op")
    if chk.anchor("R7.3", "brush_core::arithmetic::apply_unary_assignment_op", ia):
        sws = enum_switches(prog, ia, "brush_parser::ast::UnaryAssignmentOperator")
        if sws:
            sbb, m, other, rest, _ = sws[0]
            tg = dict(m)
            for r in rest:
                tg[r] = other
            regs = arm_regions(ia, sbb, tg)
            d = defs_of(ia)
            for v, blks in sorted(regs.items()):
                ops = _arm_operation(ia, blks)
                want_op = "i64::wrapping_add" if "Increment" in v else "i64::wrapping_sub"
                # returned value: Ok(x) aggregate in the arm; prefix returns the wrapping result, postfix the old value
                ret_new = None
                for bb in blks:
                    for s in ia.blocks[bb].stmts:
                        if s.kind == 'a' and s.rv.kind == 'agg' and s.rv.variant == "Ok":
                            os_ = origins(ia, d, s.rv.ops[0], transparent=set())
                            ret_new = any(o.kind == 'call' and (o.node.callee or "").startswith("i64::wrapping_") for o in os_)
                want_new = v.startswith("Prefix")
                assigns = [bb for bb in blks if ia.blocks[bb].term.kind == "call" and ia.blocks[bb].term.best_callee() == "brush_core::arithmetic::assign"]
                if want_op in ops and ret_new == want_new and assigns:
                    chk.ok("R7.3", "eval-incdec:" + v, "%s, assigns, returns the %s value" % (want_op, "new" if want_new else "old"), function=ia.name)
                else:
                    chk.fail("R7.3", ia.name, "eval-incdec:" + v, "%s: ops=%s returns_new=%s assigns=%s (reference: %s, returns %s value)"
                             % (v, sorted(ops), ret_new, bool(assigns), want_op, "new" if want_new else "old"))

    # ---- R7.4 short circuit -----------------------------------------------------------------------------------
    chk.rule("R7.4", "&& / || / ?: evaluate the later operand only on the proper edge of a test of the earlier one; assignments evaluate "
                     "the right-hand side before assigning")
    sc = None
    for cand in prog.all_bodies({"brush_core"}):
        if cand.name.startswith("brush_core::arithmetic::") and "::tests::" not in cand.name:
            if any("LogicalAnd" in sw[1] and len(sw[1]) <= 3 for sw in enum_switches(prog, cand, "brush_parser::ast::BinaryOperator")) \
                    and len([1 for _, t in cand.calls() if t.best_callee() == EVAL]) >= 4:
                sc = cand
    if not chk.anchor("R7.4", "short-circuit evaluator (dedicated match on LogicalAnd/LogicalOr that evaluates operands)", sc):
        sc = None
    if sc is not None:
        ab_saved = ab
        ab = sc
        c = cfg_of(ab)
        d = defs_of(ab)
        sws = enum_switches(prog, ab, "brush_parser::ast::BinaryOperator")
        first = min(sws, key=lambda x: x[0]) if sws else None
        for v in ("LogicalAnd", "LogicalOr"):
            sw = None
            for s in sws:
                if v in s[1] and len(s[1]) <= 3:
                    sw = s
            if sw is None:
                chk.fail("R7.4", ab.name, "short-circuit-arm:" + v, "no dedicated early arm for %s" % v)
                continue
            regs = arm_regions(ab, sw[0], sw[1])
            blks = regs[v]
            evs = sorted(bb for bb in blks if ab.blocks[bb].term.kind == "call" and ab.blocks[bb].term.best_callee() == EVAL)
            if len(evs) != 2:
                chk.fail("R7.4", ab.name, "short-circuit-evals:" + v, "%s arm has %d operand evaluations (2 expected)" % (v, len(evs)))
                continue
            e1, e2 = (evs[0], evs[1]) if c.dominates(evs[0], evs[1]) else (evs[1], evs[0])
            ok = False
            for bb in blks:
                t = ab.blocks[bb].term
                if t.kind == "switch" and c.dominates(e1, bb) and c.dominates(bb, e2) and t.ty == "bool":
                    for o in origins(ab, d, t.discr):
                        if o.kind == 'op' and o.node.kind == 'bin' and o.node.op in ("Eq", "Ne") and const_value(ab, d, o.node.ops[1]) == 0:
                            src = origins(ab, d, o.node.ops[0])
                            if any(x.kind == 'call' and x.node is ab.blocks[e1].term for x in src):
                                f, tr = bool_edges(t)
                                # which edge means "left is zero"
                                zero_edge = tr if o.node.op == "Eq" else f
                                nonzero_edge = f if o.node.op == "Eq" else tr
                                skip = zero_edge if v == "LogicalAnd" else nonzero_edge
                                if skip is not None and c.path(skip, [e2]) is None:
                                    ok = True
            if ok:
                chk.ok("R7.4", "short-circuit:" + v, "right operand evaluated only when the left one %s" % ("is non-zero" if v == "LogicalAnd" else "is zero"), function=ab.name)
            else:
                chk.fail("R7.4", ab.name, "short-circuit:" + v, "%s: the right operand's evaluation is not control dependent on the left operand's value" % v)
    eb = prog.body(EVAL)
    if chk.anchor("R7.4", EVAL, eb):
        c = cfg_of(eb)
        d = defs_of(eb)
        sws = enum_switches(prog, eb, "brush_parser::ast::ArithmeticExpr")
        if not sws:
            chk.fail("R7.4", EVAL, "expr-switch-missing", "no switch on ArithmeticExpr")
        else:
            sbb, m, other, rest, _ = max(sws, key=lambda x: len(x[1]))
            regs = arm_regions(eb, sbb, m)
            blks = regs.get("Conditional", set())
            evs = [bb for bb in blks if eb.blocks[bb].term.kind == "call" and eb.blocks[bb].term.best_callee() == EVAL]
            if len(evs) != 3:
                chk.fail("R7.4", EVAL, "conditional-evals", "Conditional arm has %d evaluations (3 expected)" % len(evs))
            else:
                cond = [e for e in evs if all(c.dominates(e, x) for x in evs)]
                br = [e for e in evs if e not in cond]
                if len(cond) == 1 and len(br) == 2 and br[1] not in c.reachable_from(br[0], avoid=[sbb]) and br[0] not in c.reachable_from(br[1], avoid=[sbb]):
                    chk.ok("R7.4", "conditional", "then/else evaluations are on different edges after the condition", function=EVAL)
                else:
                    chk.fail("R7.4", EVAL, "conditional", "?: evaluates both branches or not after the condition")
            # Assignment: the value is computed before assign()
            blks = regs.get("Assignment", set())
            asg = [bb for bb in blks if eb.blocks[bb].term.kind == "call" and eb.blocks[bb].term.best_callee() == "brush_core::arithmetic::assign"]
            fst = [bb for bb in blks if eb.blocks[bb].term.kind == "call" and eb.blocks[bb].term.best_callee() == EVAL]
            if asg and fst and all(c.dominates(fst[0], a) for a in asg):
                chk.ok("R7.4", "assign-order:Assignment", "value computed before assign()", function=EVAL)
            else:
                chk.fail("R7.4", EVAL, "assign-order:Assignment", "Assignment arm: assign() is not dominated by the evaluation of its value")
            # BinaryAssignment (`x op= rhs`): the target's current value is read before rhs is evaluated (left to right),
            # and both before assign(). Role-derived from which variant field flows into each call.
            from dataflow import flow_back
            blks = regs.get("BinaryAssignment", set())
            reads_l, reads_r, asg = [], [], []
            for bb in sorted(blks):
                t = eb.blocks[bb].term
                if t.kind != "call" or (t.callee or "").startswith(("core::", "alloc::")):
                    continue
                got = set()
                for ai, a in enumerate(t.args):
                    for f in flow_back(eb, d, a, all_args=True):
                        for pth in f.path:
                            if pth[0] == 'f' and str(pth[2]).endswith("ArithmeticExpr::BinaryAssignment"):
                                got.add((pth[3], ai))
                flds = {x for x, _ in got}
                if t.best_callee() == "brush_core::arithmetic::assign":
                    asg.append(bb)
                    continue
                if "1" in flds:
                    reads_l.append((bb, t, [ai for x, ai in got if x == "1"]))
                if "2" in flds:
                    reads_r.append((bb, t, [ai for x, ai in got if x == "2"]))
            if not reads_l or not reads_r or not asg:
                chk.fail("R7.4", EVAL, "assign-order:BinaryAssignment", "BinaryAssignment arm: could not find the read of the target (%d), the evaluation of the operand (%d) and assign() (%d)"
                         % (len(reads_l), len(reads_r), len(asg)))
            else:
                lb, lt, lidx = reads_l[0]
                bad = None
                for rb, rt, ridx in reads_r:
                    if rb == lb:
                        # one call receives both: the callee must evaluate the earlier parameter first
                        cal = prog.body(rt.best_callee())
                        if cal is None or not _param_order(prog, cal, min(lidx), min(ridx)):
                            bad = "the helper %s does not evaluate the target before the operand" % rt.best_callee()
                    elif not c.dominates(lb, rb):
                        bad = "the operand is evaluated (line %s) before the target's current value is read (line %s)" % (rt.line, lt.line)
                if bad is None and not all(c.dominates(rb, a) for rb, _, _ in reads_r for a in asg):
                    bad = "assign() is not dominated by the evaluation of the operand"
                if bad:
                    chk.fail("R7.4", EVAL, "assign-order:BinaryAssignment", "`x op= rhs`: %s — side effects of rhs on x change the result (bash reads x first)" % bad)
                else:
                    chk.ok("R7.4", "assign-order:BinaryAssignment", "target read before the operand is evaluated, both before assign()", function=EVAL)

    # ---- R7.5 deref depth guard ----------------------------------------------------------------------------
    chk.rule("R7.5", "deref_lvalue: the recursive evaluation with depth+1 is dominated by the MAX_VARIABLE_DEREF_DEPTH test; the other "
                     "recursive call only evaluates a Literal")
    deref_depth_rule(prog, chk, "R7.5")
    contents_only_through_parser_rule(prog, chk)
    substring_order_rule(prog, chk)
    arith_cache_key_rule(prog, chk)


def _param_order(prog, cal, ia, ib):
    """in body `cal`, is the first evaluation (eval_expr_impl / deref_lvalue) of parameter #ia dominating every evaluation
    of parameter #ib on the paths where both are evaluated?"""
    from dataflow import flow_back
    c = cfg_of(cal)
    d = defs_of(cal)
    ev = {ia: [], ib: []}
    for bb, t in cal.calls():
        if t.best_callee() not in (EVAL, "brush_core::arithmetic::deref_lvalue") or bb not in c.reach:
            continue
        for f in flow_back(cal, d, t.args[0] if t.best_callee() == EVAL else t.args[1]):
            if f.kind == 'arg' and f.node in (ia + 1, ib + 1):
                ev[f.node - 1].append(bb)
    if not ev[ia] or not ev[ib]:
        return False
    # every evaluation of b is dominated by some evaluation of a
    return all(any(c.dominates(a, b_) for a in ev[ia]) for b_ in ev[ib])


def deref_depth_rule(prog, chk, rid):
    db = prog.body("brush_core::arithmetic::deref_lvalue")
    if not chk.anchor(rid, "brush_core::arithmetic::deref_lvalue", db):
        return
    c = cfg_of(db)
    d = defs_of(db)
    evs = [(bb, t) for bb, t in db.calls() if t.best_callee() == EVAL and bb in c.reach]
    n_guarded = 0
    for bb, t in evs:
        dep = origins(db, d, t.args[2], through_ops=True)
        incremented = any(o.kind == 'const' and o.node.value == 1 for o in dep) and any(o.kind == 'arg' for o in dep)
        if incremented:
            ok = False
            for bl in db.blocks:
                tt = bl.term
                if tt.kind == "switch" and c.dominates(bl.idx, bb) and tt.ty == "bool":
                    for o in origins(db, d, tt.discr):
                        if o.kind == 'op' and o.node.kind == 'bin' and o.node.op in ("Gt", "Ge", "Lt", "Le"):
                            cst = [x for x in o.node.ops if x.const is not None and (x.const.def_path or "").endswith("MAX_VARIABLE_DEREF_DEPTH")
                                   or (x.const is not None and x.const.value is not None and x.const.value > 1)]
                            if cst:
                                f, tr = bool_edges(tt)
                                bad = tr if o.node.op in ("Gt", "Ge") else f
                                if bad is not None and c.path(bad, [bb]) is None:
                                    ok = True
            if ok:
                n_guarded += 1
                chk.ok(rid, "depth-guard", "recursive call with depth+1 only below MAX_VARIABLE_DEREF_DEPTH", function=db.name)
            else:
                chk.fail(rid, db.name, "unguarded-recursion", "deref_lvalue recurses with depth+1 at line %s without the depth-limit test: `x=x; $((x))` recurses until the stack overflows" % t.line)
        else:
            # same-depth recursion: allowed only for the array index evaluation (structural) and for Literal values
            recv = origins(db, d, t.args[0])
            structural = any("ArrayElement" in str(o.path) for o in recv)
            lit = False
            for sbb, m, other, rest, _ in enum_switches(prog, db, "brush_parser::ast::ArithmeticExpr"):
                tgt = m.get("Literal")
                if tgt is not None and c.dominates(sbb, bb):
                    others = [x for n, x in m.items() if n != "Literal"] + [other]
                    from rulelib import resolve_bool_arm
                    if all(c.path(resolve_bool_arm(db, x), [bb]) is None or resolve_bool_arm(db, x) == resolve_bool_arm(db, tgt) for x in others if x != tgt):
                        lit = True
            if structural:
                chk.ok(rid, "index-recursion", "same-depth recursion on the array index sub-expression (structural)", function=db.name)
            elif lit:
                chk.ok(rid, "literal-recursion", "same-depth recursion only when the parsed value is a Literal", function=db.name)
            else:
                chk.fail(rid, db.name, "same-depth-recursion", "deref_lvalue re-evaluates variable contents at the same depth (line %s) without the Literal test" % t.line)
    chk.floor(rid, "depth-guarded recursive calls", n_guarded, 1)
    depth_carried_rule(prog, chk, rid)


def depth_carried_rule(prog, chk, rid):
    """the recursion counter is carried round every cycle of the evaluator: every function of the call-graph SCC of the
    evaluator has a `depth` parameter, and every call between two of them passes a value derived from the caller's own
    depth (same or +1), never a constant. Otherwise a cycle exists on which the counter restarts and the depth test of
    deref_lvalue never trips: `x='t[x]'; $((x))` overflows the stack."""
    from rulelib import callgraph
    cg = callgraph(prog)
    scc = cg.reachable_from({EVAL}) & cg.reaches({EVAL})
    if EVAL not in scc or len(scc) < 2:
        chk.fail(rid, EVAL, "evaluator-scc-missing", "the evaluator's recursion cycle was not found in the call graph (%d members)" % len(scc), nontrivial=False)
        return
    nedges = 0
    for n in sorted(scc):
        b = prog.body(n)
        if b is None:
            continue
        names = [b.local_name(i) for i in range(1, b.argc + 1)]
        if b.kind in ("closure", "coroutine"):
            continue
        if "depth" not in names:
            chk.fail(rid, n, "cycle-member-without-depth",
                     "%s is on a recursion cycle of the arithmetic evaluator (%s) but has no `depth` parameter: the counter behind the "
                     "expression-recursion limit restarts on that cycle" % (n, " → ".join(short(x) for x in sorted(scc)[:6])))
            continue
        di = names.index("depth") + 1
        d = defs_of(b)
        for bb, t in b.calls():
            cal = t.best_callee() or ""
            if cal not in scc:
                continue
            cb = prog.body(cal)
            cn = [cb.local_name(i) for i in range(1, cb.argc + 1)] if cb is not None else []
            if "depth" not in cn:
                continue     # reported at the callee
            nedges += 1
            a = t.args[cn.index("depth")]
            og = origins(b, d, a, through_ops=True)
            from_param = any(o.kind == 'arg' and o.node == di for o in og)
            if from_param:
                chk.ok(rid, "depth-carried:%s→%s" % (short(n), short(cal)), "depth argument derives from the caller's depth", function=n)
            else:
                chk.fail(rid, n, "depth-reset:%s" % short(cal),
                         "%s calls %s at %s with a depth that does not derive from its own (origins: %s): the recursion counter restarts"
                         % (n, cal, b.loc(t.line), [o.kind for o in og][:4]))
    chk.floor(rid, "depth-carrying call edges inside the evaluator cycle", nedges, 10)


def _arm_operation(b, blks):
    """set of operation descriptors found in the arm-exclusive blocks"""
    out = set()
    d = defs_of(b)
    for bb in blks:
        bl = b.blocks[bb]
        for s in bl.stmts:
            if s.kind == 'a' and s.rv.kind == 'bin' and s.rv.ty == "i64":
                out.add("op:" + s.rv.op)
            if s.kind == 'a' and s.rv.kind == 'un' and s.rv.ty == "i64":
                out.add("op:" + s.rv.op)
            if s.kind == 'a' and s.rv.kind == 'agg' and s.rv.variant == "Ok" and s.rv.ops and s.rv.ops[0].place is not None:
                loc = s.rv.ops[0].place.local
                nm = b.local_name(loc)
                for _ in range(4):
                    if nm:
                        break
                    ds = d.of(loc)
                    if len(ds) == 1 and ds[0][0] == 'assign' and ds[0][3].rv.kind == 'use' and ds[0][3].rv.ops[0].place is not None:
                        loc = ds[0][3].rv.ops[0].place.local
                        nm = b.local_name(loc)
                    else:
                        break
                if nm in ("right", "left", "operand_eval"):
                    out.add("value:" + ("operand" if nm == "operand_eval" else nm))
        t = bl.term
        if t.kind == "call" and t.callee:
            if t.callee.startswith("i64::") or t.callee.startswith("brush_core::arithmetic::"):
                out.add(t.callee)
    return out


INT_PARSERS = ("str::parse", "core::str::traits::FromStr::from_str", "FromStr>::from_str", "::from_str_radix", "ParseIntRadix>::from_str_radix")


def contents_only_through_parser_rule(prog, chk):
    """R7.8: the contents of a variable are an arithmetic *expression* (bash literal forms included: 010 is eight, 0x10 sixteen, 2#101
    five, `08` an error). In brush_core::arithmetic text is turned into a number only by brush_parser::arithmetic::parse — never by a
    Rust integer parser, which reads decimal only and accepts what bash rejects."""
    chk.rule("R7.8", "brush_core::arithmetic converts text to numbers only through brush_parser::arithmetic::parse (no str::parse / from_str / "
                     "from_str_radix shortcut for variable contents)")
    n = 0
    bad = []
    for b in prog.all_bodies({"brush_core"}):
        fn = owner(b.name)
        if not fn.startswith(("brush_core::arithmetic::", "<brush_core::arithmetic::")) and " as brush_core::arithmetic::" not in fn:
            continue
        for bb, t in b.calls():
            cal = t.best_callee() or t.callee or ""
            if cal == "brush_parser::arithmetic::parse":
                n += 1
            if cal.endswith(INT_PARSERS) or cal in ("str::parse",):
                bad.append((fn, cal, b.loc(t.line)))
    chk.floor("R7.8", "calls of the arithmetic parser in the evaluator", n, 2)
    if bad:
        for fn, cal, loc in bad[:3]:
            chk.fail("R7.8", fn, "rust-integer-parser-in-evaluator:" + cal.rsplit("::", 1)[-1],
                     "%s turns text into a number with %s at %s instead of the arithmetic parser: `m=010; $((m))` gives 10 (bash 8), `m=08; $((m+1))` gives 9 "
                     "silently (bash: value too great for base)" % (fn, cal, loc))
    else:
        chk.ok("R7.8", "parser-only", "%d parser calls, no Rust integer parser in brush_core::arithmetic" % n, function="brush_core::arithmetic")


def substring_order_rule(prog, chk, rid="R7.9"):
    """left-to-right side effects in `${v:offset:length}`: the offset expression is evaluated before the length expression."""
    from dataflow import flow_back
    chk.rule(rid, "${v:offset:length}: the evaluation of `offset` dominates the evaluation of `length` (side effects left to right)")
    fnname = "brush_core::expansion::WordExpander::expand_parameter_expr"
    b = prog.impl_body(fnname)
    if not chk.anchor(rid, fnname, b):
        return
    c = cfg_of(b)
    d = defs_of(b)
    offs, lens = [], []
    for bb, t in b.calls():
        cal = t.best_callee() or ""
        if not cal.endswith("ExpandAndEvaluate>::eval") or bb not in c.reach:
            continue
        fields = {x for f in flow_back(b, d, t.args[0]) for x in f.field_path()}
        if "offset" in fields:
            offs.append(bb)
        if "length" in fields:
            lens.append(bb)
    if not offs or not lens:
        chk.fail(rid, fnname, "substring-evals-missing", "evaluations of the Substring offset/length not found (%d, %d)" % (len(offs), len(lens)))
    elif all(any(c.dominates(o, l) for o in offs) for l in lens):
        chk.ok(rid, "offset-before-length", "offset.eval dominates length.eval", function=fnname)
    else:
        chk.fail(rid, fnname, "length-evaluated-before-offset",
                 "in `${v:offset:length}` the length is evaluated on a path where the offset has not been evaluated yet: `i=1; ${s:i++:i}` uses the old i for the "
                 "length (bash evaluates left to right)")


def arith_cache_key_rule(prog, chk, rid="R7.10"):
    """the parse cache of the arithmetic parser is keyed by the input text itself (shared with C15)."""
    from rules import c15
    chk.rule(rid, "the memo key of brush_parser::arithmetic's parse cache is the input text, reached only through identity conversions "
                  "(no normalisation: `a++ + b` and `a + ++b` are different expressions)")
    c15.lossless_key_rule(prog, chk, rid, only=lambda fn: fn.startswith("brush_parser::arithmetic::"))
