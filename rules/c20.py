"""C20 — history saved once, in order (DESIGN §3 C20)."""
import re

from rulelib import SHIPPED, call_sites, cfg_of, defs_of, owner
from dataflow import const_value, field_stores, origins, rvalue_origins
from facts import canon

H = "brush_core::history::History"
ITEM = "brush_core::history::Item"
WRITE_FMT = "std::io::Write::write_fmt"


def _fmt_literal(snip):
    if not snip:
        return None
    m = re.search(r'"((?:[^"\\]|\\.)*)"', snip)
    return m.group(1) if m else None


def _derives_from_field(b, d, term, field):
    """does any argument of the (format) call derive from a place with `field` — follows the
    format_args plumbing by scanning the block-local statements feeding the call"""
    seen = set()
    work = [a for a in term.args]
    while work:
        op = work.pop()
        for o in origins(b, d, op):
            if field in o.field_path():
                return True
            if o.kind == 'agg':
                for x in o.node.ops:
                    k = repr(x)
                    if k not in seen:
                        seen.add(k)
                        work.append(x)
            elif o.kind == 'call':
                for x in o.node.args:
                    k = repr(x)
                    if k not in seen:
                        seen.add(k)
                        work.append(x)
    return False


def run(prog, chk):
    chk.explanation = (
        "MIR path rules on History::flush / History::import: every item written to the file is marked clean on every path "
        "back to the loop head, the skip edge depends on the dirty flag, imported items are constructed clean and new ones dirty, "
        "the `#epoch` line is written in the same iteration before its command and only under write_timestamps, and the set of "
        "flush callers with their constant (append, unsaved_only) arguments. Not decided: file contents over all interleavings.")
    chk.assumptions = ["rustc MIR", "format literals recovered from the macro call-site snippet"]
    fb = prog.impl_body(H + "::flush")
    if not chk.anchor("R20.1", H + "::flush", fb):
        return
    c = cfg_of(fb)
    d = defs_of(fb)
    loops = c.source_loops()
    writes = call_sites(fb, {WRITE_FMT})
    cmd_w = [(bb, t) for bb, t in writes if _derives_from_field(fb, d, t, "command_line")]
    ts_w = [(bb, t) for bb, t in writes if (_fmt_literal(t.snip) or "").startswith("#")]
    chk.rule("R20.1", "flush: after the write of item.command_line every non-error path to the loop head stores item.dirty = false; "
                      "the skip edge is controlled by the dirty flag")
    chk.floor("R20.1", "command_line write sites in flush", len(cmd_w), 1)
    stores = [(bb, i, s) for bb, i, s in field_stores(fb, "history::Item", "dirty")
              if s.rv.kind == 'use' and const_value(fb, d, s.rv.ops[0]) == 0]
    sbbs = [bb for bb, _, _ in stores]
    for wbb, wt in cmd_w:
        hdrs = [h for h, blks in loops.items() if wbb in blks]
        if not hdrs:
            chk.fail("R20.1", H + "::flush", "write-not-in-loop", "command_line write is not inside the item loop")
            continue
        h = hdrs[0]
        errs = c.error_exit_blocks()
        p = c.escapes(wbb, sbbs, [h], after=True, avoid=errs)
        if p is not None:
            chk.fail("R20.1", H + "::flush", "written-item-stays-dirty",
                     "a path from the command_line write (line %s) returns to the loop head without `item.dirty = false`: an item "
                     "written by this flush is written again by the next unsaved-only flush (blocks %s)" % (wt.line, p), detail={"path_blocks": p})
        else:
            chk.ok("R20.1", "write->clean", "dirty=false on every path from the write at line %s to the loop head" % wt.line, function=H + "::flush")
        # skip edge
        guard = False
        for bl in fb.blocks:
            t = bl.term
            if t.kind == "switch" and bl.idx in loops[h] and wbb in c.reachable_from(bl.idx, avoid=[h]):
                if any("dirty" in o.field_path() for o in origins(fb, d, t.discr, through_ops=True)):
                    # one successor must reach the header without the write, another must reach the write
                    skips = [s for s in c.succ[bl.idx] if wbb not in c.reachable_from(s, avoid=[h])]
                    if skips and len(skips) < len(c.succ[bl.idx]):
                        guard = True
        if guard:
            chk.ok("R20.1", "skip-edge", "a branch on item.dirty inside the loop can skip the write", function=H + "::flush")
        else:
            chk.fail("R20.1", H + "::flush", "no-dirty-skip", "no branch on item.dirty dominating the write with a skipping edge: clean items are re-written")

    chk.rule("R20.3", "flush: the `#epoch` write precedes the command write in the same iteration and depends on write_timestamps")
    chk.floor("R20.3", "timestamp write sites", len(ts_w), 1)
    for tbb, tt in ts_w:
        for wbb, wt in cmd_w:
            hdrs = [h for h, blks in loops.items() if wbb in blks and tbb in blks]
            if not hdrs:
                chk.fail("R20.3", H + "::flush", "ts-not-in-item-loop", "timestamp write and command write are not in the same loop")
                continue
            h = hdrs[0]
            fwd = c.path(tbb, [wbb], avoid=[h], after=True)
            back = c.path(wbb, [tbb], avoid=[h], after=True)
            if fwd is None or back is not None:
                chk.fail("R20.3", H + "::flush", "ts-order", "timestamp line is not written immediately before its command within one iteration")
            else:
                # nothing else written in between
                between = [x for x in fwd[1:-1] if any(x == b2 for b2, _ in writes)]
                if between:
                    chk.fail("R20.3", H + "::flush", "ts-not-adjacent", "another write sits between the timestamp and its command")
                else:
                    chk.ok("R20.3", "ts-before-command", "`#%s` line written before the command in the same iteration" % "{}", function=H + "::flush")
        dep = False
        for bl in fb.blocks:
            t = bl.term
            if t.kind == "switch" and c.dominates(bl.idx, tbb):
                for o in origins(fb, d, t.discr):
                    if o.kind == 'arg' and fb.local_name(o.node) == "write_timestamps":
                        if any(c.path(s, [h], avoid=[tbb]) is not None for s in c.succ[bl.idx] for h in loops):
                            dep = True
        if dep:
            chk.ok("R20.3", "ts-conditional", "timestamp write is control dependent on write_timestamps", function=H + "::flush")
        else:
            chk.fail("R20.3", H + "::flush", "ts-unconditional", "timestamp write does not depend on write_timestamps")

    # ---- R20.2 constructors --------------------------------------------------------------------
    chk.rule("R20.2", "history::Item aggregates: import constructs dirty=false, every other constructor dirty=true; import attaches "
                      "next_timestamp.take()")
    n = 0
    for b in prog.all_bodies(SHIPPED):
        for bl in b.blocks:
            for s in bl.stmts:
                if s.kind == 'a' and s.rv.kind == 'agg' and s.rv.adt == ITEM:
                    if "Clone@core" in s.exp or "@serde" in s.exp:
                        continue  # derived Clone copies the flag; serde Deserialize restores a serialized value
                    if "Default@core" in s.exp:
                        users = prog.callers_of("<%s as core::default::Default>::default" % ITEM, crates=SHIPPED)
                        if users:
                            chk.fail("R20.2", owner(users[0][0].name), "default-item", "history::Item::default() (dirty=false) is used at %s: such an item is never saved"
                                     % users[0][0].loc(users[0][2].line))
                        else:
                            chk.ok("R20.2", "derived-default-unused", "derived Default (dirty=false) has no caller in shipped code", nontrivial=False)
                        continue
                    n += 1
                    fn = owner(b.name)
                    dv = const_value(b, defs_of(b), s.rv.field_ops()["dirty"])
                    want = 0 if fn == H + "::import" else 1
                    if dv != want:
                        chk.fail("R20.2", fn, "dirty-init", "%s constructs history::Item with dirty=%r (expected %r) at %s" % (fn, dv, bool(want), b.loc(s.line)))
                    else:
                        chk.ok("R20.2", "ctor:" + fn, "dirty=%s" % bool(want), function=fn)
                    if fn == H + "::import":
                        tso = origins(b, defs_of(b), s.rv.field_ops()["timestamp"])
                        if any(o.kind == 'call' and o.node.best_callee() == "core::option::Option::take" for o in tso):
                            chk.ok("R20.2", "import-timestamp", "timestamp = next_timestamp.take()", function=fn)
                        else:
                            chk.fail("R20.2", fn, "import-timestamp", "imported item's timestamp does not come from next_timestamp.take()")
    chk.floor("R20.2", "history::Item constructors", n, 2)

    # ---- R20.4 callers -------------------------------------------------------------------------
    chk.rule("R20.4", "History::flush callers and their constant (append, unsaved_only) arguments")
    cs = prog.callers_of(H + "::flush", crates=SHIPPED)
    chk.floor("R20.4", "flush callers", len(cs), 3)
    allowed = {("brush_core::shell::Shell::save_history", (1, 1)),
               ("brush_builtins::history::HistoryCommand::execute_with_history", (1, 1)),
               ("brush_builtins::history::HistoryCommand::execute_with_history", (0, 0))}
    for b, bb, t in cs:
        fn = owner(b.name)
        dd = defs_of(b)
        consts = tuple(const_value(b, dd, a) for a in t.args[2:4])
        if (fn, consts) in allowed:
            chk.ok("R20.4", "flush@%s%s" % (fn, consts), "append=%s unsaved_only=%s" % consts, nontrivial=False, function=fn)
        else:
            chk.fail("R20.4", fn, "flush-mode:%s" % (consts,), "%s calls History::flush(append=%s, unsaved_only=%s) at %s — not one of the reviewed modes "
                     "(append+unsaved-only, or truncate+all)" % ((fn,) + consts + (b.loc(t.line),)))
    position_cache_rule(prog, chk)
    order_rule(prog, chk)


POSITIONAL = ("Iterator::skip", "Iterator::take", "Iterator::step_by", "Iterator::nth", "Iterator::skip_while", "Iterator::take_while",
              "Vector::get", "Index<usize>>::index", "Vector::iter_from", "[T]::get", "Index>::index")


def position_cache_rule(prog, chk):
    """R20.5: every item is considered by flush; if a History method selects items by position using a value cached in a field of
    History (e.g. `items.iter().skip(self.saved_prefix)`), every method that replaces or shrinks `items` must update that field
    too — otherwise the cached position points past entries that were never written and they are skipped for good."""
    from dataflow import flow_back
    chk.rule("R20.5", "History methods select items by position only through values that every shrinking mutator of `items` maintains "
                      "(no stale prefix count): flush cannot skip a dirty item because an earlier delete shifted the list")
    bodies = [b for b in prog.all_bodies({"brush_core"}) if owner(b.name).startswith(H + "::")]
    chk.floor("R20.5", "History method bodies", len(bodies), 15)
    shrinkers = {}
    for b in bodies:
        st = field_stores(b, "history::History", "items")
        if st:
            shrinkers[owner(b.name)] = b
    chk.floor("R20.5", "methods that replace the item list", len(shrinkers), 3)
    caches = {}
    nsel = 0
    for b in bodies:
        d = defs_of(b)
        for bb, t in b.calls():
            cal = t.best_callee() or t.callee or ""
            if not cal.endswith(POSITIONAL) or len(t.args) < 2:
                continue
            recv = flow_back(b, d, t.args[0], all_args=False)
            if not any("items" in f.field_path() and any("history::History" in canon(p[2]) for p in f.path if p[0] == 'f') for f in recv):
                continue
            nsel += 1
            for f in flow_back(b, d, t.args[1], all_args=True):
                for p in f.path:
                    if p[0] == 'f' and canon(p[2]).endswith("history::History") and p[3] not in ("items", "id_map"):
                        caches.setdefault(p[3], []).append((owner(b.name), b.loc(t.line), short_name(cal)))
    chk.note("positional_selections_over_items", nsel)
    if not caches:
        chk.ok("R20.5", "no-position-cache", "no History method selects items by a position cached in a field (%d positional selections over `items` examined, "
               "all by arguments or local counts)" % nsel, function=H + "::flush")
    for fld, uses in sorted(caches.items()):
        for m, b in sorted(shrinkers.items()):
            if field_stores(b, "history::History", fld):
                chk.ok("R20.5", "maintained:%s@%s" % (fld, m.rsplit("::", 1)[-1]), "updates the cached position", function=m)
            else:
                chk.fail("R20.5", m, "position-cache-not-maintained:" + fld,
                         "%s replaces History.items but does not update `%s`, which %s uses to select items by position (%s at %s): after this call the "
                         "cached position is stale and entries that were never written are skipped by later saves"
                         % (m, fld, uses[0][0], uses[0][2], uses[0][1]))


def short_name(c):
    return c.rsplit("::", 2)[-2] + "::" + c.rsplit("::", 1)[-1] if c.count("::") >= 2 else c


VECTOR_MUTATORS = ("push_back_mut", "push_front_mut", "push_back", "push_front", "set_mut", "set", "drop_last_mut", "drop_last", "insert", "insert_mut")


def order_rule(prog, chk):
    """R20.6: recording order and completeness of reload. (a) History::add appends (push_back_mut of the fresh id onto `items`) and
    assigns a fresh id on every call (next_id = next_id + 1 unconditionally), so no recorded command replaces or precedes an earlier
    one; (b) nothing else inserts into `items`; (c) History::import hands every line that is not a `#` comment to add — unchanged —
    before the next line is read; (d) flush walks `items` itself, front to back."""
    from dataflow import flow_back
    chk.rule("R20.6", "add appends a fresh id; nothing else inserts into the item list; import adds every non-comment line unchanged; flush walks the list front to back")
    ab = prog.impl_body(H + "::add")
    if chk.anchor("R20.6", H + "::add", ab):
        c = cfg_of(ab)
        d = defs_of(ab)
        pushes = [(bb, t) for bb, t in ab.calls() if (t.best_callee() or t.callee or "").endswith("Vector::push_back_mut")
                  and any("items" in f.field_path() for f in flow_back(ab, d, t.args[0], all_args=False))]
        others = [short_name(t.best_callee() or t.callee or "") for bb, t in ab.calls()
                  if (t.best_callee() or t.callee or "").startswith("rpds::vector::") and (t.best_callee() or t.callee or "").rsplit("::", 1)[-1] in VECTOR_MUTATORS
                  and not (t.best_callee() or t.callee or "").endswith("push_back_mut")]
        st = field_stores(ab, "history::History", "next_id")
        inc_ok = False
        for bb, i, s_ in st:
            for o in origins(ab, d, s_.rv.ops[0], through_ops=True) if s_.rv.ops else []:
                pass
            fl = flow_back(ab, d, s_.rv.ops[0], all_args=True) if s_.rv.ops else []
            if any("next_id" in f.field_path() for f in fl) and any(f.kind == 'const' for f in fl) and all(c.dominates(bb, r) for r in c.return_blocks()):
                inc_ok = True
        if len(pushes) == 1 and not others and all(c.dominates(pushes[0][0], r) for r in c.return_blocks()):
            idf = flow_back(ab, d, pushes[0][1].args[1], all_args=False)
            # `item.id = id` is a store into a field of the by-value argument: follow it
            for f in list(idf):
                if f.kind == 'arg' and "id" in f.field_path():
                    for bl in ab.blocks:
                        for s_ in bl.stmts:
                            if s_.kind == 'a' and s_.place.local == f.local and [p[3] for p in s_.place.proj if p[0] == 'f'] == ["id"] and s_.rv.ops:
                                idf += flow_back(ab, d, s_.rv.ops[0], all_args=False)
            if any("next_id" in f.field_path() for f in idf):
                chk.ok("R20.6", "add-appends-fresh-id", "items.push_back_mut(next_id) dominates the return", function=ab.name)
            else:
                chk.fail("R20.6", ab.name, "appended-id-not-fresh", "History::add appends an id that does not come from next_id (a caller-supplied id can collide with an "
                         "existing entry and replace its command)")
        else:
            chk.fail("R20.6", ab.name, "add-does-not-append", "History::add no longer appends exactly one id at the back of the item list on every path "
                     "(push_back_mut sites: %d, other vector mutators: %s): recording order is not the order of the file" % (len(pushes), others))
        if inc_ok:
            chk.ok("R20.6", "id-incremented-always", "next_id = next_id + 1 dominates the return", function=ab.name)
        else:
            chk.fail("R20.6", ab.name, "id-not-incremented-always", "next_id is not incremented on every path of History::add: two commands can share an id, the second "
                     "replaces the first in the map and the command appears twice (or not at all) when saved")
    # (b) WHO inserts into items
    n = 0
    for b in prog.all_bodies({"brush_core"}):      # `items` is private to brush_core::history
        fn = owner(b.name)
        if not fn.startswith("brush_core::history::"):
            continue
        d = None
        for bb, t in b.calls():
            cal = t.best_callee() or t.callee or ""
            if not (cal.startswith("rpds::vector::") and cal.rsplit("::", 1)[-1] in VECTOR_MUTATORS) or not t.args:
                continue
            d = d or defs_of(b)
            if not any("items" in f.field_path() and any(canon(p[2]).endswith("history::History") for p in f.path if p[0] == 'f')
                       for f in flow_back(b, d, t.args[0], all_args=False)):
                continue
            n += 1
            if fn == H + "::add" and cal.endswith("push_back_mut"):
                continue
            chk.fail("R20.6", fn, "inserts-into-item-list:" + cal.rsplit("::", 1)[-1], "%s changes History.items through %s (%s): only History::add may insert, and only at the back"
                     % (fn, short_name(cal), b.loc(t.line)))
    chk.floor("R20.6", "insertions into History.items", n, 1)
    # (c) import
    ib = prog.impl_body(H + "::import")
    if chk.anchor("R20.6", H + "::import", ib):
        c = cfg_of(ib)
        d = defs_of(ib)
        adds = [bb for bb, t in ib.calls() if (t.best_callee() or "").endswith("History::add")]
        strips = [(bb, t) for bb, t in ib.calls() if (t.best_callee() or t.callee or "").endswith("str::strip_prefix")]
        loops = c.source_loops()
        ok = False
        for sb, stt in strips:
            sw = ib.blocks[stt.target].term
            if sw.kind != "switch":
                continue
            none_edge = sw.otherwise if any(v == 1 for v, _ in sw.targets) else [tg for v, tg in sw.targets if v == 0][0]
            loop = [(h, blks) for h, blks in loops.items() if sb in blks]
            if not loop:
                continue
            h, blks = loop[0]
            latch = [x for x in blks if h in c.succ[x]]
            exits = latch + [r for r in c.return_blocks()]
            w = c.escapes(none_edge, adds, exits, after=False, avoid=c.error_exit_blocks())
            if adds and w is None:
                ok = True
            else:
                chk.fail("R20.6", ib.name, "line-not-added-on-some-path", "History::import reads a line that is not a `#` comment and goes on to the next line without adding it "
                         "(via line %s): reloading does not yield the saved sequence" % [ib.blocks[x].term.line for x in (w or [])][-2:])
        if ok:
            chk.ok("R20.6", "import-adds-every-command-line", "every path from the not-a-comment edge to the next iteration passes History::add", function=ib.name)
        elif not strips:
            chk.fail("R20.6", ib.name, "comment-test-missing", "History::import no longer tests for the `#` prefix with strip_prefix")
        # command_line is the line itself
        good = bad = 0
        for bl in ib.blocks:
            for s_ in bl.stmts:
                if s_.kind == 'a' and s_.rv.kind == 'agg' and (s_.rv.adt or "").endswith("history::Item"):
                    names = s_.rv.raw.get("fn") or []
                    if "command_line" not in names:
                        continue
                    fl = flow_back(ib, d, s_.rv.ops[names.index("command_line")], all_args=False)
                    vias = {v for f in fl for v in f.via}
                    extra = sorted(v for v in vias if not v.endswith(("Iterator>::next", "Iterator::next", "IntoIterator>::into_iter", "IntoIterator::into_iter", "BufRead::lines", "BufReader::new", "Try>::branch")))
                    if extra:
                        bad += 1
                        chk.fail("R20.6", ib.name, "imported-line-transformed", "History::import stores a transformed line (%s) as the command: what is reloaded differs from what was saved"
                                 % [short_name(x) for x in extra][:3])
                    else:
                        good += 1
        if good and not bad:
            chk.ok("R20.6", "imported-line-verbatim", "Item.command_line is the line as read", function=ib.name)
        elif not good and not bad:
            chk.fail("R20.6", ib.name, "import-item-missing", "no history::Item aggregate with a command_line found in History::import")
    # (d) flush iterates items directly
    fb = prog.impl_body(H + "::flush")
    if fb is not None:
        d = defs_of(fb)
        c = cfg_of(fb)
        its = [(bb, t) for bb, t in fb.calls() if (t.best_callee() or t.callee or "").endswith(("IntoIterator>::into_iter", "IntoIterator::into_iter"))]
        good = False
        for bb, t in its:
            fl = flow_back(fb, d, t.args[0], all_args=False)
            if any("items" in f.field_path() for f in fl):
                # order-preserving adapters (skip/take/filter/…) are R20.1/R20.5's business; here only what reorders
                extra = sorted(v for v in {v for f in fl for v in f.via}
                               if v.endswith(("Iterator::rev", "::rev")) or "sort" in v.rsplit("::", 1)[-1] or "Hash" in v or "BTree" in v or "BinaryHeap" in v)
                if not extra:
                    good = True
                else:
                    chk.fail("R20.6", fb.name, "flush-order-adapted", "History::flush walks the item list through %s: the file is not written in recording order" % [short_name(x) for x in extra][:3])
        if good:
            chk.ok("R20.6", "flush-walks-items-in-order", "`for item_id in &self.items`", function=fb.name)
        elif not its:
            chk.fail("R20.6", fb.name, "flush-loop-missing", "no iteration over History.items in flush")
