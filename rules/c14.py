"""C14 — printed functions re-parse (DESIGN §3 C14): printer and parser agree on every fixed
token; list printers cannot glue items; one function printer."""
import os
import re

import peg
from rulelib import SHIPPED, arm_regions, call_sites, cfg_of, defs_of, enum_switches, owner
from dataflow import origins
from facts import canon

REPO = os.environ.get("BRUSH_REPO", "/repo")
AST = "brush_parser::ast::"

TABLE_ENUMS = ["IoFileRedirectKind", "CaseItemPostAction", "AndOr", "SeparatorOperator", "ProcessSubstitutionKind",
               "UnaryPredicate", "BinaryPredicate", "BinaryOperator", "UnaryOperator", "UnaryAssignmentOperator"]

SIBLING_BY_DESIGN = {
    ("BinaryPredicate", "="): "[[ ]] matches the right side as a pattern, test/[ compares strings (POSIX): different variants by design",
    ("BinaryPredicate", "=="): "[[ ]] matches the right side as a pattern, test/[ compares strings: different variants by design",
    ("BinaryPredicate", "!="): "[[ ]] matches the right side as a pattern, test/[ compares strings: different variants by design",
}

SEP_CHARS = " \n\t;|&"

# printed literal is decorated around the parser literal (whitespace only)
def _norm(s):
    return s.strip()


def _collect_literals(toks, out, neg=False, bare=False):
    """string literals that are arguments of specific_operator/specific_word or `["lit"]` classes, outside
    negative lookaheads"""
    i = 0
    while i < len(toks):
        t = toks[i]
        if t.kind == 'punct' and t.text == '!':
            # skip the next element (call with args or group)
            j = i + 1
            if j < len(toks) and toks[j].kind == 'ident':
                j += 1
                if j < len(toks) and toks[j].text == '(':
                    j = peg._match(toks, j) + 1
            elif j < len(toks) and toks[j].text in ('(', '['):
                j = peg._match(toks, j) + 1
            i = j
            continue
        if t.kind == 'ident' and t.text in ("specific_operator", "specific_word") and i + 1 < len(toks) and toks[i + 1].text == '(':
            k = peg._match(toks, i + 1)
            for x in toks[i + 2:k]:
                if x.kind == 'str':
                    out.append(x.text)
            i = k + 1
            continue
        if t.kind == 'punct' and t.text == '[':
            k = peg._match(toks, i)
            inner = toks[i + 1:k]
            if len(inner) == 1 and inner[0].kind == 'str':
                out.append(inner[0].text)
            i = k + 1
            continue
        if t.kind == 'punct' and t.text in ('{', '{?'):
            i = peg._match(toks, i) + 1
            continue
        if t.kind == 'punct' and t.text == '(':
            k = peg._match(toks, i)
            _collect_literals(toks[i + 1:k], out, bare=bare)
            i = k + 1
            continue
        if bare and t.kind == 'str':
            out.append(t.text)
        i += 1


def parser_table(path, bare=False):
    """(enum, variant) -> set of literals, from every top-level alternative / precedence alternative whose
    action constructs `ast::Enum::Variant` for one of TABLE_ENUMS"""
    g = peg.load(path)
    table = {}
    lit_to_var = {}
    for gname, rules in g.items():
        for rname, body in rules.items():
            alts = []
            lv = None
            if any(t.kind == 'ident' and t.text == 'precedence' for t in body[:3]):
                # re-tokenised alternatives of a precedence block: rebuild token lists per alternative
                k = 0
                while body[k].text != '{':
                    k += 1
                inner = body[k + 1:peg._match(body, k)]
                cur = []
                j = 0
                while j < len(inner):
                    t = inner[j]
                    if t.kind == 'punct' and t.text == '--':
                        j += 1
                        continue
                    if t.kind == 'punct' and t.text in ('{', '{?'):
                        m = peg._match(inner, j)
                        cur.extend(inner[j:m + 1])
                        alts.append(cur)
                        cur = []
                        j = m + 1
                        continue
                    if t.kind == 'punct' and t.text in peg.OPEN:
                        m = peg._match(inner, j)
                        cur.extend(inner[j:m + 1])
                        j = m + 1
                        continue
                    cur.append(t)
                    j += 1
            else:
                alts = peg.split_alternatives(body)
            for alt in alts:
                # the alternative's own (last, top-level) action
                action = None
                j = 0
                while j < len(alt):
                    t = alt[j]
                    if t.kind == 'punct' and t.text in ('{', '{?'):
                        m = peg._match(alt, j)
                        action = " ".join(x.text for x in alt[j + 1:m])
                        j = m + 1
                        continue
                    if t.kind == 'punct' and t.text in peg.OPEN:
                        j = peg._match(alt, j) + 1
                        continue
                    j += 1
                if not action:
                    continue
                m = None
                for en in TABLE_ENUMS:
                    mm = re.search(r"ast :: %s :: (\w+)" % en, action)
                    if mm and (m is None or mm.start() < m[1].start()):
                        m = (en, mm)
                if m is None:
                    continue
                lits = []
                _collect_literals(alt, lits, bare=bare)
                if not lits:
                    continue
                key = (m[0], m[1].group(1))
                table.setdefault(key, set()).update(lits)
                for l in lits:
                    lit_to_var.setdefault((m[0], l), set()).add(m[1].group(1))
    return table, lit_to_var


def printer_table(prog, enum):
    """variant -> set of literals written by `<ast::enum as Display>::fmt`"""
    b = prog.body("<%s%s as core::fmt::Display>::fmt" % (AST, enum))
    if b is None:
        return None
    sws = enum_switches(prog, b, AST + enum)
    if not sws:
        return None
    sbb, m, other, rest, _ = max(sws, key=lambda x: len(x[1]))
    tg = dict(m)
    regs = arm_regions(b, sbb, tg)
    out = {}
    for v, blks in regs.items():
        lits = set()
        # include the straight-line continuation of the arm target (goto chains)
        for bb in blks:
            t = b.blocks[bb].term
            if t.kind == "call" and (t.callee or "").endswith("fmt::Arguments::from_str"):
                for a in t.args:
                    if a.const is not None and a.const.string is not None:
                        lits.add(a.const.string)
            elif t.kind == "call" and (t.callee or "").endswith("Formatter::write_str"):
                for a in t.args:
                    if a.const is not None and a.const.string is not None:
                        lits.add(a.const.string)
            elif t.kind == "call" and (t.callee or "").endswith(("fmt::Arguments::new", "Argument::new_display")) and t.snip:
                m = re.search(r'"((?:[^"\\]|\\.)*)"', t.snip)
                if m:
                    lits.add(re.sub(r"\{[^}]*\}", "", m.group(1)))
        out[v] = lits
    return out


def run(prog, chk):
    chk.explanation = (
        "TABLE: for every operator-like AST enum the literal written by its Display impl (extracted from the match arms in MIR) is one "
        "of the literals the grammar (read from the peg source) maps to the same variant; the `[[ ]]` and `test` predicate tables agree; "
        "arithmetic operator printing agrees with the arithmetic grammar. Separators: every Display loop over a collection writes a "
        "separating literal per iteration. WHO: BASH_FUNC export, declare -f and type print functions through the same Display impl. "
        "Not decided: parse∘print fixed point, behaviour of re-imported functions, keyword skeletons of struct nodes.")
    chk.assumptions = ["rustc MIR", "peg source inspection (E3)", "`write!(f, \"lit\")` lowers to fmt::Arguments::from_str(const)"]

    chk.rule("R14.1", "printed literal of each enum variant ∈ literals the parser maps to that variant; sibling reader tables agree")
    ptab, l2v = parser_table(os.path.join(REPO, "brush-parser/src/parser/peg.rs"))
    atab, al2v = parser_table(os.path.join(REPO, "brush-parser/src/arithmetic.rs"), bare=True)
    ttab, tl2v = parser_table(os.path.join(REPO, "brush-parser/src/test_command.rs"))
    chk.note("parser_table_rows", len(ptab))
    chk.note("arith_table_rows", len(atab))
    chk.note("test_table_rows", len(ttab))
    chk.floor("R14.1", "program-grammar table rows", len(ptab), 40)
    chk.floor("R14.1", "arithmetic-grammar table rows", len(atab), 25)
    chk.floor("R14.1", "test-grammar table rows", len(ttab), 30)
    n = 0
    for en in TABLE_ENUMS:
        pt = printer_table(prog, en)
        if pt is None:
            chk.fail("R14.1", AST + en, "printer-table-missing", "Display impl / match on %s not found" % en)
            continue
        src = atab if en in ("BinaryOperator", "UnaryOperator", "UnaryAssignmentOperator") else ptab
        for v, lits in sorted(pt.items()):
            want = src.get((en, v))
            if not want and en in ("UnaryPredicate", "BinaryPredicate"):
                want = ttab.get((en, v))
            if not want:
                chk.ok("R14.1", "%s::%s" % (en, v), "no parser literal for this variant (constructed elsewhere)", nontrivial=False)
                continue
            n += 1
            printed = {_norm(x) for x in lits if _norm(x)}
            if not printed:
                chk.fail("R14.1", AST + en, "%s::%s" % (en, v), "Display for %s::%s writes no literal (parser expects one of %s)" % (en, v, sorted(want)))
            elif printed & want:
                chk.ok("R14.1", "%s::%s" % (en, v), "prints %s ∈ parser %s" % (sorted(printed), sorted(want)), function=AST + en)
            else:
                chk.fail("R14.1", AST + en, "%s::%s" % (en, v),
                         "Display for %s::%s prints %s but the parser maps %s to it: the printed text re-parses to a different node"
                         % (en, v, sorted(printed), sorted(want)))
    chk.floor("R14.1", "printer/parser rows compared", n, 60)
    # sibling reader tables
    ns = 0
    for (en, lit), vs in sorted(l2v.items()):
        if en not in ("UnaryPredicate", "BinaryPredicate"):
            continue
        other = tl2v.get((en, lit))
        if other is None:
            continue
        ns += 1
        if (en, lit) in SIBLING_BY_DESIGN:
            chk.ok("R14.1", "sibling:%s:%s" % (en, lit), SIBLING_BY_DESIGN[(en, lit)], nontrivial=False)
            continue
        if vs == other:
            chk.ok("R14.1", "sibling:%s:%s" % (en, lit), "[[ ]] and test agree: %s" % sorted(vs))
        else:
            chk.fail("R14.1", "brush_parser::test_command", "sibling:%s:%s" % (en, lit),
                     "`%s` maps to %s in [[ ]] but to %s in test/[" % (lit, sorted(vs), sorted(other)))
    chk.floor("R14.1", "sibling predicate literals", ns, 30)

    # ---- R14.2 separators ------------------------------------------------------------------------------
    chk.rule("R14.2", "every Display loop over a collection writes a separating literal (blank, newline, ;, |, &) on each iteration")
    nl = 0
    ndisp = 0
    disp = {}
    for b in prog.all_bodies({"brush_parser"}):
        if b.name.startswith("<brush_parser::ast::") and b.name.endswith(" as core::fmt::Display>::fmt"):
            disp[b.name[1:b.name.index(" as ")]] = b
    # Display graph: T -> element types formatted with {} inside T's fmt
    def elem_types(b):
        out = set()
        for bb, t in b.calls():
            if (t.callee or "").endswith("Argument::new_display") and t.gen_args:
                for m in re.finditer(r"brush_parser::ast::(\w+)", t.gen_args):
                    out.add("brush_parser::ast::" + m.group(1))
        return out
    reach = set()
    stack = ["brush_parser::ast::FunctionDefinition"]
    while stack:
        x = stack.pop()
        if x in reach or x not in disp:
            continue
        reach.add(x)
        stack.extend(elem_types(disp[x]))
    chk.note("display_types_reachable_from_FunctionDefinition", len(reach))

    def first_literals(b):
        c = cfg_of(b)
        seen = set()
        out = []
        stack = [0]
        while stack:
            x = stack.pop()
            if x in seen:
                continue
            seen.add(x)
            t = b.blocks[x].term
            if t.kind == "call":
                cal = t.callee or ""
                if cal.endswith(("Arguments::from_str", "Formatter::write_str")):
                    out += [a.const.string for a in t.args if a.const is not None and a.const.string is not None] or [""]
                    continue
                if cal.endswith(("Argument::new_display", "fmt::Arguments::new")) or (t.snip or "").startswith(("write!", "writeln!")) and "fmt" in cal:
                    sn = t.snip or ""
                    m = re.search(r'"((?:[^"\\]|\\.)*)"', sn)
                    lit = m.group(1).replace("\\n", "\n") if m else ""
                    if sn.startswith("writeln!") and not m:
                        lit = "\n"
                    out.append(lit)
                    continue
            stack.extend(c.succ[x])
        return out

    for ty, b in sorted(disp.items()):
        ndisp += 1
        if ty not in reach:
            continue
        c = cfg_of(b)
        for h, blks in c.source_loops().items():
            elems = set()
            for bb in blks:
                t = b.blocks[bb].term
                if t.kind == "call" and (t.callee or "").endswith("Argument::new_display") and t.gen_args:
                    for m in re.finditer(r"brush_parser::ast::(\w+)", t.gen_args):
                        elems.add("brush_parser::ast::" + m.group(1))
            fmt_calls = [bb for bb in blks if b.blocks[bb].term.kind == "call" and
                         (b.blocks[bb].term.callee or "").endswith(("Argument::new_display",))]
            if not fmt_calls:
                continue
            nl += 1
            lits = []
            for bb in blks:
                t = b.blocks[bb].term
                if t.kind != "call":
                    continue
                if (t.callee or "").endswith(("Arguments::from_str", "Formatter::write_str")):
                    lits += [a.const.string for a in t.args if a.const is not None and a.const.string is not None]
                if t.snip and ("write!" in t.snip or "writeln!" in t.snip):
                    m = re.search(r'"((?:[^"\\]|\\.)*)"', t.snip)
                    if m:
                        lits.append(m.group(1).replace("\\n", "\n"))
                    if t.snip.startswith("writeln!"):
                        lits.append("\n")
            sep = [l for l in lits if re.search(r"[ \n\t;|&]", re.sub(r"\{[^}]*\}", "", l))]
            if sep:
                chk.ok("R14.2", "loop:%s" % ty, "separator literal %r written in the loop" % sep[0], function=b.name)
                continue
            # element printers that begin with a separator on every path
            ok_elems = []
            for e in sorted(elems):
                eb = disp.get(e)
                fl = first_literals(eb) if eb is not None else []
                if fl and all(l and l[0] in SEP_CHARS for l in fl):
                    ok_elems.append(e)
            if elems and set(ok_elems) == elems:
                chk.ok("R14.2", "loop:%s" % ty, "every element printer (%s) starts with a separator on all paths" % ", ".join(x.rsplit("::", 1)[-1] for x in ok_elems), function=b.name)
            else:
                chk.fail("R14.2", b.name, "glued-items", "Display for %s formats collection items (%s) in a loop with no separating literal, and the element printer does not start with one: adjacent items are glued together"
                         % (ty, ", ".join(sorted(x.rsplit("::", 1)[-1] for x in elems)) or "?"))
    chk.floor("R14.2", "Display impls scanned", ndisp, 45)
    chk.floor("R14.2", "Display loops", nl, 8)

    field_coverage_rule(prog, chk, disp)
    grammar_order_rule(prog, chk, disp)
    exported_function_reader_rule(prog, chk)
    redirect_fd_table_rule(prog, chk)
    import_after_parser_options_rule(prog, chk)
    heredoc_rule(prog, chk, disp)

    # ---- R14.3 single printer ------------------------------------------------------------------------------
    chk.rule("R14.3", "exported functions (BASH_FUNC_…), declare -f and type print functions via Display of FunctionDefinition/FunctionBody")
    users = {
        "brush_core::commands::compose_std_command": "BASH_FUNC export",
        "brush_builtins::declare::DeclareCommand::try_display_declaration": "declare -f NAME",
        "brush_builtins::declare::DeclareCommand::display_matching_functions": "declare -f",
    }
    for fn, what in users.items():
        b = prog.impl_body(fn)
        if not chk.anchor("R14.3", fn, b):
            continue
        d = defs_of(b)
        hit = False
        for bb, t in b.calls():
            if (t.callee or "").endswith("Argument::new_display") and t.args and t.args[0].place is not None:
                ty = canon(b.local_ty(t.args[0].place.local))
                if "ast::FunctionDefinition" in ty or "ast::FunctionBody" in ty:
                    hit = True
        if hit:
            chk.ok("R14.3", what, "formats the function through its Display impl", function=fn)
        else:
            chk.fail("R14.3", fn, "function-not-printed-via-display", "%s (%s) no longer formats a FunctionDefinition/FunctionBody through Display" % (fn, what))


LOCATION_TYPES = ("brush_parser::source::SourceSpan", "brush_parser::source::SourcePosition", "brush_parser::source::SourcePositionOffset",
                  "brush_parser::tokenizer::TokenLocation")
# fields that Display may skip: the information is carried by another printed field (one reason each)
UNPRINTED_BY_DESIGN = {
    ("brush_parser::ast::IoHereDocument", "requires_expansion"):
        "derived from the delimiter's quoting, which is printed verbatim as part of here_end (the re-parse recomputes the flag)",
}


def _self_aliases(b):
    selfs = {1}
    changed = True
    while changed:
        changed = False
        for bl in b.blocks:
            for st in bl.stmts:
                if st.kind == 'a' and st.place.is_local() and st.place.local not in selfs:
                    src = None
                    if st.rv.kind in ('use', 'cast') and st.rv.ops[0].place is not None:
                        src = st.rv.ops[0].place
                    elif st.rv.kind == 'ref':
                        src = st.rv.place
                    if src is not None and src.local in selfs and not any(p[0] == 'f' for p in src.proj):
                        selfs.add(st.place.local)
                        changed = True
    return selfs


def _places(b):
    for bl in b.blocks:
        if bl.cleanup:
            continue
        for st in bl.stmts:
            if st.kind == 'a':
                if st.rv.place is not None:
                    yield st.rv.place
                for o in st.rv.ops:
                    if o.place is not None:
                        yield o.place
        t = bl.term
        for a in t.args:
            if a.place is not None:
                yield a.place
        if t.kind == 'switch' and t.discr.place is not None:
            yield t.discr.place


def field_coverage_rule(prog, chk, disp):
    """R14.4: a node's printer reads every field of the node (all variants), except source locations and the reviewed
    derived fields. A field that is never read cannot influence the printed text, so two functions differing in it print
    alike and the printed text re-parses to a different function than the one that was printed."""
    chk.rule("R14.4", "every Display impl of an AST node reads every field of every variant of its node (source locations and reviewed derived "
                      "fields excepted): nothing that distinguishes two functions is dropped by the printer")
    nfields = 0
    for ty, b in sorted(disp.items()):
        adt = prog.adts.get(ty)
        if adt is None:
            chk.fail("R14.4", b.name, "adt-missing", "no type facts for %s" % ty, nontrivial=False)
            continue
        selfs = _self_aliases(b)
        read = set()
        for pl in _places(b):
            if pl.local in selfs:
                var = None
                for pr in pl.proj:
                    if pr[0] == 'd':
                        var = pr[1] if len(pr) > 1 else None
                    if pr[0] == 'f':
                        read.add((var if adt['kind'] == 'enum' else None, pr[3]))
                        break
        for v in adt['variants']:
            for f in v['fields']:
                fty = f['ty']
                if any(lt in fty for lt in LOCATION_TYPES):
                    continue
                nfields += 1
                key = (v['name'] if adt['kind'] == 'enum' else None, f['name'])
                label = "%s%s.%s" % (ty.rsplit("::", 1)[-1], "::" + v['name'] if adt['kind'] == 'enum' else "", f['name'])
                if key in read or (None, f['name']) in read:
                    chk.ok("R14.4", "printed:" + label, "field read by the printer", function=b.name)
                elif (ty, f['name']) in UNPRINTED_BY_DESIGN:
                    chk.ok("R14.4", "derived:" + label, UNPRINTED_BY_DESIGN[(ty, f['name'])], nontrivial=False, function=b.name)
                else:
                    chk.fail("R14.4", b.name, "field-not-printed:" + label,
                             "Display for %s never reads field `%s` (%s): whatever it holds is missing from every text produced through this impl "
                             "(declare -f / type / exported BASH_FUNC_ bodies), so the printed function re-parses to a different one"
                             % (ty.rsplit("::", 1)[-1], f['name'], fty[:70]))
    chk.floor("R14.4", "printable fields of AST nodes", nfields, 90)


def heredoc_rule(prog, chk, disp):
    """R14.5: a here-document inside a printed function keeps its body and terminator byte-exact: (a) the terminator line is the
    delimiter with its quoting removed (the reader compares body lines with the unquoted tag); (b) no printer on the way from
    FunctionDefinition to IoHereDocument writes through an indenting adaptor (the body lines and the terminator would be shifted)."""
    chk.rule("R14.5", "here-documents in printed functions: terminator printed unquoted; body and terminator not written through indenter::Indented")
    hd = disp.get(AST + "IoHereDocument")
    if not chk.anchor("R14.5", AST + "IoHereDocument Display", hd):
        return
    c = cfg_of(hd)
    d = defs_of(hd)
    from dataflow import flow_back
    ends = []
    for bb, t in hd.calls():
        if (t.callee or "").endswith("Argument::new_display") and t.args:
            fl = flow_back(hd, d, t.args[0])
            if any("here_end" in f.field_path() for f in fl):
                ends.append((bb, t, fl))
    docs = [bb for bb, t in hd.calls() if (t.callee or "").endswith("Argument::new_display") and t.args
            and any("doc" in f.field_path() for f in flow_back(hd, d, t.args[0]))]
    if len(ends) < 2 or not docs:
        chk.fail("R14.5", hd.name, "heredoc-printer-shape", "expected the delimiter to be printed before and after the body (found %d delimiter / %d body arguments)" % (len(ends), len(docs)))
    else:
        closing = [e for e in ends if all(c.dominates(x, e[0]) for x in docs)]
        raw = [e for e in closing if not any("unquote" in v for f in e[2] for v in f.via)]
        if raw:
            chk.fail("R14.5", hd.name, "heredoc-terminator-printed-quoted",
                     "the terminator line after the body is Display of here_end, i.e. the delimiter as written (`'EOF'`); the reader ends a here-document at a "
                     "line equal to the delimiter with quotes removed (`EOF`), so a printed function with <<'EOF' never terminates its document when re-read")
        else:
            chk.ok("R14.5", "terminator-unquoted", "closing delimiter goes through quote removal", function=hd.name)
    # (b) indenting adaptor on a path to IoHereDocument
    def elem_types(b, only_indented):
        out = set()
        for bb, t in b.calls():
            if (t.callee or "").endswith("Argument::new_display") and t.gen_args:
                if only_indented:
                    # the write_fmt that consumes these arguments has an indenter::Indented receiver
                    from dataflow import forward_taint
                    tl = forward_taint(b, {t.dest.local}) if t.dest is not None else set()
                    ind = False
                    for b2, t2 in b.calls():
                        if (t2.best_callee() or t2.callee or "").endswith("::write_fmt") and any(a.place is not None and a.place.local in tl for a in t2.args):
                            rty = b.local_ty(t2.args[0].place.local) if t2.args and t2.args[0].place is not None else ""
                            if "indenter::Indented" in rty or "indenter::Indented" in (t2.best_callee() or ""):
                                ind = True
                    if not ind:
                        continue
                for m in re.finditer(r"brush_parser::ast::(\w+)", t.gen_args):
                    out.add(AST + m.group(1))
        return out
    reach_fn = set()
    stack = [AST + "FunctionDefinition"]
    while stack:
        x = stack.pop()
        if x in reach_fn or x not in disp:
            continue
        reach_fn.add(x)
        stack.extend(elem_types(disp[x], False))
    offenders = []
    for ty in sorted(reach_fn):
        for e in elem_types(disp[ty], True):
            # does e reach IoHereDocument?
            seen = set()
            st2 = [e]
            while st2:
                y = st2.pop()
                if y in seen or y not in disp:
                    continue
                seen.add(y)
                st2.extend(elem_types(disp[y], False))
            if AST + "IoHereDocument" in seen:
                offenders.append((ty, e))
    chk.note("indenting_printers_above_heredocs", ["%s→%s" % (a.rsplit("::", 1)[-1], b2.rsplit("::", 1)[-1]) for a, b2 in offenders])
    if offenders:
        chk.fail("R14.5", hd.name, "heredoc-body-indented",
                 "here-document bodies are written through indenter::Indented (%s): every body line and the terminator are shifted by the nesting "
                 "indentation, so the document's text changes and (without <<- and tabs) the terminator is never recognised on re-read"
                 % ", ".join("%s prints %s indented" % (a.rsplit("::", 1)[-1], b2.rsplit("::", 1)[-1]) for a, b2 in offenders[:4]))
    else:
        chk.ok("R14.5", "heredoc-not-indented", "no indenting adaptor between FunctionDefinition and IoHereDocument", function=hd.name)


REDIRECT_KIND = "brush_parser::ast::IoFileRedirectKind"
REF_DEFAULT_FD = {"Read": 0, "Write": 1, "Append": 1, "ReadAndWrite": 0, "Clobber": 1, "DuplicateInput": 0, "DuplicateOutput": 1}


def _kind_fd_table(prog, b):
    """variant -> constant integer stored into the return place, for a body that switches on IoFileRedirectKind"""
    from dataflow import const_value
    out = {}
    d = defs_of(b)
    for sbb, m, other, rest, _ in enum_switches(prog, b, REDIRECT_KIND):
        tg = dict(m)
        for r in rest:
            tg[r] = other
        for v, t in tg.items():
            x = t
            for _ in range(5):
                if x is None:
                    break
                val = None
                for st in b.blocks[x].stmts:
                    if st.kind == 'a' and st.place.is_local() and st.place.local == 0 and st.rv.kind == 'use':
                        val = const_value(b, d, st.rv.ops[0])
                    elif st.kind == 'a' and st.place.is_local() and st.place.local == 0 and st.rv.kind == 'agg' and st.rv.variant == "Some" and st.rv.ops:
                        val = const_value(b, d, st.rv.ops[0])       # the table returns Option<fd>
                if val is not None:
                    out[v] = val
                    break
                tt = b.blocks[x].term
                if tt.kind != "goto":
                    break
                x = tt.target
    return out


def grammar_order_rule(prog, chk, disp):
    """R14.6: a node's printer writes its parts in the order the grammar reads them. For every grammar rule whose action builds a struct
    node from labelled sub-rules (`timed:… bang:… seq:… { ast::Pipeline { timed, bang: …, seq } }`) the first read of each field in the
    node's Display impl must not come strictly before the first read of a field the grammar binds earlier. `time ! cmd` printed as
    `! time cmd` re-parses as a negated command called `time`."""
    chk.rule("R14.6", "Display writes the fields of a struct node in the order in which the grammar rule that builds the node binds them")
    g = list(peg.load(os.path.join(REPO, "brush-parser/src/parser/peg.rs")).values())[0]
    npairs = 0
    for rname, toks in g.items():
        alts = peg.split_alternatives(toks) if hasattr(peg, "split_alternatives") else [toks]
        for alt in alts:
            els = peg.elements(alt)
            labels = [e.get("label") for e in els if e.get("label")]
            text = " ".join(t.text for t in alt)
            for m in re.finditer(r"ast :: (\w+) \{([^{}]*)\}", text):
                T = AST + m.group(1)
                adt = prog.adts.get(T)
                if not adt or adt["kind"] != "struct" or T not in disp:
                    continue
                fields = [f["name"] for f in adt["variants"][0]["fields"]]
                f2l = {}
                for part in m.group(2).split(","):
                    part = part.strip()
                    mm = re.match(r"(\w+) : (\w+)", part)
                    if mm and mm.group(1) in fields:
                        src = mm.group(2)
                        if src not in labels:
                            lm = re.search(r"let (?:mut )?%s = ([^;]*);" % re.escape(src), text)
                            if lm:
                                used = [l for l in labels if re.search(r"\b%s\b" % re.escape(l), lm.group(1))]
                                src = used[0] if used else src
                        f2l[mm.group(1)] = src
                    elif part in fields:
                        f2l[part] = part
                order = [f for f in sorted(f2l, key=lambda f: labels.index(f2l[f]) if f2l[f] in labels else 99) if f2l[f] in labels]
                if len(order) < 2:
                    continue
                b = disp[T]
                c = cfg_of(b)
                selfs = _self_aliases(b)
                fr = {}
                for bl in b.blocks:
                    if bl.cleanup or bl.idx not in c.reach:
                        continue
                    places = []
                    for st in bl.stmts:
                        if st.kind == 'a':
                            if st.rv.place is not None:
                                places.append(st.rv.place)
                            places += [o.place for o in st.rv.ops if o.place is not None]
                    t = bl.term
                    places += [a.place for a in t.args if a.place is not None]
                    if t.kind == 'switch' and t.discr.place is not None:
                        places.append(t.discr.place)
                    for pl in places:
                        if pl.local in selfs:
                            for pr in pl.proj:
                                if pr[0] == 'f':
                                    fr.setdefault(pr[3], []).append(bl.idx)
                                    break
                for i, a in enumerate(order):
                    for later in order[i + 1:]:
                        if a not in fr or later not in fr:
                            continue
                        npairs += 1
                        viol = any(all(c.dominates(x, y) and x != y for y in fr[a]) for x in fr[later])
                        if viol:
                            chk.fail("R14.6", b.name, "printed-out-of-grammar-order:%s.%s<%s" % (T.rsplit("::", 1)[-1], later, a),
                                     "Display for %s writes `%s` before `%s`, but rule `%s` of the grammar reads `%s` first: the printed text is parsed as something "
                                     "else (or not at all) when it is read back" % (T.rsplit("::", 1)[-1], later, a, rname, a))
                        else:
                            chk.ok("R14.6", "order:%s.%s<%s" % (T.rsplit("::", 1)[-1], a, later), "printed in grammar order", function=b.name)
    chk.floor("R14.6", "ordered field pairs compared", npairs, 12)


def exported_function_reader_rule(prog, chk):
    """R14.7: the reader of BASH_FUNC_name%% accepts whatever the writer emits. The writer is `format!("() {}", body)` where body may
    start with any compound command; a reader that first tests the value with starts_with(<literal>) may only use a literal that is a
    prefix of the writer's fixed prefix `() `."""
    from dataflow import flow_back
    chk.rule("R14.7", "the import of exported functions applies no prefix filter stricter than the exporter's fixed prefix `() `")
    wb = prog.impl_body("brush_core::commands::compose_std_command")
    prefix = None
    if chk.anchor("R14.7", "compose_std_command", wb):
        for bb, t in wb.calls():
            sn = t.snip or ""
            m = re.search(r'format!\s*\(\s*"(\(\)[^"{]*)\{\}', sn)
            if m:
                prefix = m.group(1)
    if prefix is None:
        chk.fail("R14.7", "brush_core::commands::compose_std_command", "writer-prefix-not-found", "the BASH_FUNC value is no longer written as format!(\"() {}\", …)", nontrivial=False)
        return
    rb = prog.impl_body("brush_core::wellknownvars::inherit_env_vars")
    if not chk.anchor("R14.7", "inherit_env_vars", rb):
        return
    d = defs_of(rb)
    tests = 0
    for bb, t in rb.calls():
        cal = t.best_callee() or t.callee or ""
        if not cal.endswith(("str::starts_with", "str::strip_prefix")):
            continue
        lits = []
        for a in t.args[1:]:
            for f in flow_back(rb, d, a, all_args=True):
                if f.kind != 'const':
                    continue
                if f.node.string is not None:
                    lits.append(f.node.string)
                elif f.node.def_path:
                    # a named constant: its value is read from the item's source text (`const NAME: &str = "…";`)
                    nm = f.node.def_path.rsplit("::", 1)[-1]
                    val = None
                    for root, _dirs, files in os.walk(os.path.join(REPO, "brush-core/src")):
                        for fnm in files:
                            if fnm.endswith(".rs"):
                                mm = re.search(r'const\s+%s\s*:\s*&(?:\'static\s+)?str\s*=\s*"((?:[^"\\\\]|\\\\.)*)"' % re.escape(nm), open(os.path.join(root, fnm), errors="replace").read())
                                if mm:
                                    val = mm.group(1)
                    lits.append(val if val is not None else "<unresolved constant %s>" % nm)
        for lit in lits:
            if lit.startswith("BASH_FUNC") or lit == "%%":
                continue
            tests += 1
            if prefix.startswith(lit):
                chk.ok("R14.7", "reader-prefix:%r" % lit, "a prefix of the writer's %r" % prefix, function=rb.name)
            else:
                chk.fail("R14.7", rb.name, "reader-stricter-than-writer",
                         "inherit_env_vars only accepts BASH_FUNC values starting with %r, but the exporter writes %r followed by the printed body, which begins with "
                         "`(`, `for`, `if`, … for functions whose body is not a brace group: such exported functions silently never arrive in a child shell" % (lit, prefix))
    if tests == 0:
        chk.ok("R14.7", "reader-unfiltered", "the value is handed to the parser without a prefix filter (writer prefix %r)" % prefix, function=rb.name)


def redirect_fd_table_rule(prog, chk):
    """R14.8: every table from redirection operator to its implied descriptor agrees with the interpreter's (and POSIX): `<` `<>` `<&` → 0,
    `>` `>>` `>|` `>&` → 1. A printer that omits "redundant" descriptors using a different table changes what the printed text means."""
    chk.rule("R14.8", "all IoFileRedirectKind → implied-descriptor tables in the workspace equal the reference (Read/ReadAndWrite/DuplicateInput → 0, others → 1)")
    n = 0
    for b in prog.all_bodies(SHIPPED):
        if b.kind in ("closure", "coroutine"):
            continue
        tab = _kind_fd_table(prog, b)
        if len(tab) < 4:
            continue
        n += 1
        bad = {k: v for k, v in tab.items() if k in REF_DEFAULT_FD and v != REF_DEFAULT_FD[k]}
        fn = owner(b.name)
        if bad:
            chk.fail("R14.8", fn, "implied-fd-table-differs:" + ",".join(sorted(bad)),
                     "%s maps %s, the interpreter (and POSIX) use %s: a redirection printed or interpreted with this table lands on another descriptor — "
                     "`1<>file` printed as `<> file` re-reads as opening the file on descriptor 0"
                     % (fn, ", ".join("%s→%s" % kv for kv in sorted(bad.items())), ", ".join("%s→%s" % (k, REF_DEFAULT_FD[k]) for k in sorted(bad))))
        else:
            chk.ok("R14.8", "fd-table@" + fn.rsplit("::", 1)[-1], "%d variants, equal to the reference" % len(tab), function=fn)
    chk.floor("R14.8", "operator → descriptor tables found", n, 1)


def import_after_parser_options_rule(prog, chk):
    """R14.9: functions exported by a parent shell are re-parsed while the new shell is constructed (inherit_env_vars → parse with
    Shell::parser_options()); a body that does not parse is dropped silently. So every option field that parser_options() reads must have
    its start-up value *before* the import runs: in the constructor no store to such a field is reachable after the call of
    inherit_env_vars. (extglob is switched on during construction: if that happens after the import, an exported function whose body
    contains `+(…)` / `@(…)` never arrives in the child.)"""
    from dataflow import field_stores
    chk.rule("R14.9", "in the shell constructor no option that parser_options() reads is set after exported functions were imported (inherit_env_vars)")
    po = prog.impl_body("brush_core::shell::Shell::parser_options")
    if not chk.anchor("R14.9", "brush_core::shell::Shell::parser_options", po):
        return
    fields = set()
    for bl in po.blocks:
        for st in bl.stmts:
            if st.kind != 'a':
                continue
            places = [o.place for o in st.rv.ops if o.place is not None] + ([st.rv.place] if getattr(st.rv, "place", None) is not None else [])
            for pl in places:
                names = [p[3] for p in pl.proj if p[0] == 'f']
                if "options" in names and names.index("options") + 1 < len(names):
                    fields.add(names[names.index("options") + 1])
    chk.floor("R14.9", "option fields read by parser_options", len(fields), 2)
    IMPORT = "brush_core::wellknownvars::inherit_env_vars"
    callers = prog.callers_of(IMPORT, crates=SHIPPED)
    chk.floor("R14.9", "callers of inherit_env_vars", len(callers), 1)
    for b, bb, t in callers:
        c = cfg_of(b)
        after = c.reachable_after(bb)
        late = []
        for f in sorted(fields):
            for sb, i, st in field_stores(b, "options::RuntimeOptions", f):
                if sb in after:
                    late.append((f, b.blocks[sb].term.line))
        fn = owner(b.name)
        if late:
            chk.fail("R14.9", fn, "parser-option-set-after-function-import:" + late[0][0],
                     "%s sets options.%s (near line %s) after inherit_env_vars has already re-parsed the exported functions with the old value: an exported function "
                     "whose body needs that option (extglob patterns in case items, `[[ … == +(…) ]]`) fails to parse and is silently missing in the child shell"
                     % (fn, late[0][0], late[0][1]))
        else:
            chk.ok("R14.9", "options-before-import@" + fn.rsplit("::", 1)[-1], "stores to %s precede the import" % sorted(fields), function=fn)
