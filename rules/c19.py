"""C19 — syntax highlighting (DESIGN §3 C19): the "never fails" clause — the highlighter contains no
unchecked slicing / indexing / unwrap and all span bookkeeping goes through one function."""
from rulelib import SHIPPED, call_sites, cfg_of, defs_of, owner
from dataflow import field_stores, origins
from rules import c01

MOD = "brush_interactive::highlighting::"
FORBIDDEN_PREFIXES = ("index:", "bounds", "unwrap", "expect", "String::", "str::split_at", "slice::", "Vec::remove", "Vec::insert",
                      "Vec::drain", "Vec::swap_remove", "Vec::split_off", "step_by", "RefCell", "block_on", "Handle::current", "panic-abort")


def run(prog, chk):
    chk.explanation = (
        "Decides the `never fails` clause for every body of brush_interactive::highlighting: no str/slice indexing, no unwrap/expect, "
        "no bounds-checked array access, no panicking String/Vec edit API; every usize subtraction is behind a dominating comparison; "
        "string slicing happens only through str::get; spans are pushed and the cursor advanced only inside append_span, where the gap "
        "filler is pushed under `start > current_byte_index`, and every span starts at (a maximum with) current_byte_index with both "
        "bounds clamped to character boundaries inside the line; every path of highlight_program ends with a span/skip up to "
        "global_offset + line.len(), run by highlight_command over the whole line at offset 0; the renderer pushes every span's text. "
        "Ordered / contiguous / non-overlapping / char-aligned / covering are structural. Not decided: the kind each span gets.")
    chk.assumptions = ["rustc MIR of a debug-assertions build", "str::get returns None instead of panicking"]
    chk.rule("R19.1", "no unchecked slicing/indexing/unwrap/edit API in the highlighter; usize subtractions guarded; str::get used for slicing")
    sites, nb = c01._enumerate(prog, scope=lambda fn: fn.startswith(MOD), crates={"brush_interactive"})
    chk.floor("R19.1", "highlighter bodies", nb, 8)
    n_add = n_dbg = 0
    for s in sites:
        if c01._gen_crate(s.exp) is not None:
            continue
        if s.kind == "panic" and c01._is_debug_only(s.exp):
            n_dbg += 1
            continue
        if s.kind.startswith(FORBIDDEN_PREFIXES) or s.kind == "panic":
            chk.fail("R19.1", s.fn, s.kind, "%s uses a panic-capable construct `%s` at %s:%s: a line/cursor that violates its precondition aborts the line editor"
                     % (s.fn, s.kind, s.file, s.line))
        elif s.kind.startswith("overflow:Sub") or s.kind.startswith(("DivisionByZero", "RemainderByZero")):
            why = c01.auto_discharge(s)
            if why:
                chk.ok("R19.1", "%s|%s" % (s.fn, s.kind), why, function=s.fn)
            else:
                chk.fail("R19.1", s.fn, s.kind, "%s subtracts/divides without a dominating guard at %s:%s" % (s.fn, s.file, s.line))
        elif s.kind.startswith("overflow:Add") or s.kind.startswith("overflow:Mul"):
            n_add += 1
        else:
            chk.fail("R19.1", s.fn, s.kind, "unclassified panic-capable construct `%s` at %s:%s" % (s.kind, s.file, s.line))
    chk.ok("R19.1", "offset-sums", "%d usize additions of byte offsets within the in-memory line (cannot overflow before allocation fails)" % n_add, nontrivial=False)
    chk.ok("R19.1", "debug-only-asserts", "%d debug_assert! char-boundary checks (not present in release builds)" % n_dbg, nontrivial=False)
    gets = 0
    for b in prog.all_bodies({"brush_interactive"}):
        if owner(b.name).startswith(MOD):
            gets += len([1 for _, t in b.calls() if (t.callee or "") in ("str::get",) or (t.callee or "").endswith("::str::get") or (t.callee or "") == "core::str::<impl str>::get"])
    chk.floor("R19.1", "str::get slicing sites", gets, 2)

    chk.rule("R19.2", "spans.push and stores to current_byte_index occur only in append_span; the gap filler is conditional on range.start > current_byte_index")
    ap = prog.body(MOD + "Highlighter::append_span")
    npush = 0
    for b in prog.all_bodies({"brush_interactive"}):
        fn = owner(b.name)
        if not fn.startswith(MOD):
            continue
        d = defs_of(b)
        pushes = [(bb, t) for bb, t in b.calls() if (t.callee or "") == "alloc::vec::Vec::push"
                  and any("spans" in o.field_path() for o in origins(b, d, t.args[0]))]
        stores = field_stores(b, "highlighting::Highlighter", "current_byte_index")
        npush += len(pushes)
        if (pushes or stores) and fn != MOD + "Highlighter::append_span":
            chk.fail("R19.2", fn, "span-bookkeeping-outside-append_span", "%s pushes a span / moves current_byte_index itself (%d pushes, %d stores)" % (fn, len(pushes), len(stores)))
        elif pushes or stores:
            chk.ok("R19.2", "bookkeeping@append_span", "%d pushes, %d cursor stores" % (len(pushes), len(stores)), function=fn)
    chk.floor("R19.2", "span pushes", npush, 2)
    if chk.anchor("R19.2", MOD + "Highlighter::append_span", ap):
        c = cfg_of(ap)
        d = defs_of(ap)
        ok = False
        for bl in ap.blocks:
            t = bl.term
            if t.kind == "switch" and t.ty == "bool":
                for o in origins(ap, d, t.discr, transparent=set()):
                    if o.kind == 'op' and o.node.kind == 'bin' and o.node.op in ("Gt", "Lt"):
                        flds = [f for op in o.node.ops for x in origins(ap, d, op, transparent=set()) for f in x.field_path()]
                        if "current_byte_index" in flds:
                            ok = True
        # R19.3: every span handed to HighlightSpan::new starts at a value derived from current_byte_index
        # (directly, or through max(.., current_byte_index)) and ends at a value clamped to be >= its start
        chk.rule("R19.3", "append_span: each pushed span starts at current_byte_index or at max(clamped start, current_byte_index); "
                          "its end is max(.., start); current_byte_index is then set to that end — spans cannot overlap, go backwards or "
                          "split a character (both bounds pass through the char-boundary clamps)")
        news = [(bb, t) for bb, t in ap.calls() if (t.best_callee() or "").endswith("HighlightSpan::new")]
        chk.floor("R19.3", "HighlightSpan::new sites in append_span", len(news), 2)
        for bb, t in news:
            starts_ok = ends_ok = False
            for o in origins(ap, d, t.args[0], transparent=set()):
                if o.kind == 'agg' and (o.node.adt or "").endswith("ops::range::Range"):
                    so, eo = o.node.ops[0], o.node.ops[1]
                    from dataflow import flow_back
                    sf = flow_back(ap, d, so, all_args=True)
                    ef = flow_back(ap, d, eo, all_args=True)
                    if any("current_byte_index" in f.field_path() for f in sf):
                        starts_ok = True
                    # end: derives from max(.., start) i.e. passes an Ord::max call, or is the gap filler's `start`
                    if any(any(v.endswith("cmp::Ord::max") for v in f.via) for f in ef) or any("current_byte_index" in f.field_path() for f in ef):
                        ends_ok = True
            if starts_ok and ends_ok:
                chk.ok("R19.3", "span@line%s" % t.line, "start derives from current_byte_index; end is clamped >= start", function=ap.name)
            else:
                chk.fail("R19.3", ap.name, "span-start-not-anchored", "a span is pushed at line %s whose start does not derive from current_byte_index (start=%s end=%s): spans can overlap or go backwards" % (t.line, starts_ok, ends_ok))
        clamps = [t for _, t in ap.calls() if (t.best_callee() or "").endswith(("floor_char_boundary", "ceil_char_boundary"))]
        if len(clamps) >= 2:
            chk.ok("R19.3", "char-boundary-clamps", "both bounds pass through floor/ceil_char_boundary", function=ap.name)
        else:
            chk.fail("R19.3", ap.name, "no-char-boundary-clamp", "append_span does not clamp its bounds to character boundaries")
        cur_stores = field_stores(ap, "highlighting::Highlighter", "current_byte_index")
        if len(cur_stores) == 1 and c.escapes(0, [cur_stores[0][0]], c.return_blocks(), after=False) is None:
            chk.ok("R19.3", "cursor-advanced-on-all-paths", "current_byte_index = end on every path", function=ap.name)
        else:
            chk.fail("R19.3", ap.name, "cursor-store", "current_byte_index is not set exactly once on every path of append_span (%d stores)" % len(cur_stores))
        if ok:
            chk.ok("R19.2", "gap-filler-conditional", "gap span pushed only under a comparison of range.start with current_byte_index", function=ap.name)
        else:
            chk.fail("R19.2", ap.name, "gap-filler-unconditional", "append_span no longer compares range.start with current_byte_index before filling the gap")

    tail_coverage_rule(prog, chk)
    clamp_rule(prog, chk)
    render_rule(prog, chk)


def _flows_line_end(b, d, op):
    """does `op` derive from both the offset argument (_3) and str::len of the line argument (_2)?"""
    from dataflow import flow_back
    fl = flow_back(b, d, op, all_args=True)
    has_len = any(f.kind == 'arg' and f.local == 2 and any(v.endswith("str::len") for v in f.via) for f in fl)
    has_off = any(f.kind == 'arg' and f.local == 3 for f in fl)
    return has_len and has_off


def tail_coverage_rule(prog, chk):
    """R19.4: the spans reach the end of the line. highlight_program ends, on every path (tokenizer success and failure), with a
    bookkeeping call (skip_ahead / append_span) whose destination is global_offset + line.len(); highlight_command runs it over the very
    line the Highlighter was built for, at offset 0, before the spans are taken. With R19.3 (each span starts at the cursor, the cursor
    becomes its end) and R19.5 (bounds are clamped to the line) the final cursor equals the line length: every byte is covered."""
    chk.rule("R19.4", "every path through highlight_program ends with a span/skip whose end is global_offset + line.len(); highlight_command "
                      "runs it over the Highlighter's own line at offset 0 before taking the spans")
    hp = prog.body(MOD + "Highlighter::highlight_program")
    if chk.anchor("R19.4", MOD + "Highlighter::highlight_program", hp):
        c = cfg_of(hp)
        d = defs_of(hp)
        tails = []
        for bb, t in hp.calls():
            cal = t.best_callee() or ""
            if cal.endswith("Highlighter::skip_ahead") and len(t.args) == 2 and _flows_line_end(hp, d, t.args[1]):
                tails.append(bb)
            elif cal.endswith("Highlighter::append_span") and len(t.args) == 3:
                for o in origins(hp, d, t.args[2], transparent=set()):
                    if o.kind == 'agg' and (o.node.adt or "").endswith("ops::range::Range") and _flows_line_end(hp, d, o.node.ops[1]):
                        tails.append(bb)
        chk.floor("R19.4", "tail bookkeeping calls in highlight_program", len(tails), 1)
        w = c.escapes(0, tails, c.return_blocks(), after=False)
        if w is None and tails:
            chk.ok("R19.4", "tail-on-every-path", "%d tail calls (lines %s) cut every entry→return path" % (len(tails), sorted({hp.blocks[x].term.line for x in tails})), function=hp.name)
        else:
            chk.fail("R19.4", hp.name, "path-without-tail-span",
                     "a path through highlight_program returns without covering the rest of the line up to global_offset + line.len() (via line %s): "
                     "text after the last token (trailing blanks, a comment) gets no span and is not rendered"
                     % ([hp.blocks[x].term.line for x in (w or [])][-2:] or "?"))
    hc = prog.body(MOD + "highlight_command")
    if chk.anchor("R19.4", MOD + "highlight_command", hc):
        d = defs_of(hc)
        c = cfg_of(hc)
        news = [(bb, t) for bb, t in hc.calls() if (t.best_callee() or "").endswith("Highlighter::new")]
        progs = [(bb, t) for bb, t in hc.calls() if (t.best_callee() or "").endswith("Highlighter::highlight_program")]
        from dataflow import base_local
        if len(news) == 1 and len(progs) == 1:
            nl = base_local(hc, d, news[0][1].args[1])
            pl = base_local(hc, d, progs[0][1].args[1])
            off = const_value_of(hc, d, progs[0][1].args[2])
            same = nl is not None and nl == pl and 1 <= nl <= hc.argc
            if same and off == 0 and all(c.dominates(progs[0][0], r) for r in c.return_blocks()):
                chk.ok("R19.4", "whole-line-at-offset-0", "highlight_program(line, 0) over the Highlighter's own line dominates the return", function=hc.name)
            else:
                chk.fail("R19.4", hc.name, "program-not-whole-line", "highlight_command no longer runs highlight_program over the Highlighter's own line at offset 0 "
                         "(same line: %s, offset: %s)" % (same, off))
        else:
            chk.fail("R19.4", hc.name, "entry-shape", "expected one Highlighter::new and one highlight_program call (found %d, %d)" % (len(news), len(progs)))


def const_value_of(b, d, op):
    from dataflow import const_value
    return const_value(b, d, op)


def clamp_rule(prog, chk):
    """R19.5: floor_char_boundary / ceil_char_boundary first clamp the index to the line length (Ord::min with input_line.len()), and the
    loop that looks for a boundary starts from that clamped value. Without the clamp ceil_char_boundary(index > len) never terminates
    (is_char_boundary is false beyond the end) and floor would hand out an offset past the line."""
    from dataflow import flow_back
    chk.rule("R19.5", "the char-boundary clamps start from min(index, input_line.len()): no span bound exceeds the line, the search loops terminate")
    n = 0
    for nm in ("floor_char_boundary", "ceil_char_boundary"):
        b = prog.body(MOD + "Highlighter::" + nm)
        if not chk.anchor("R19.5", MOD + "Highlighter::" + nm, b):
            continue
        n += 1
        c = cfg_of(b)
        d = defs_of(b)
        mins = []
        for bb, t in b.calls():
            if (t.best_callee() or t.callee or "").endswith("cmp::Ord::min") and len(t.args) == 2:
                fl = [f for a in t.args for f in flow_back(b, d, a, all_args=True)]
                if any("input_line" in f.field_path() and any(v.endswith("str::len") for v in f.via) for f in fl) and any(f.kind == 'arg' and f.local == 2 for f in fl):
                    mins.append(bb)
        probes = [bb for bb, t in b.calls() if (t.best_callee() or t.callee or "").endswith("str::is_char_boundary")]
        if not mins:
            chk.fail("R19.5", b.name, "index-not-clamped-to-line", "%s does not clamp its index with min(index, input_line.len()) any more: offsets past the end of the line "
                     "reach the spans (and ceil_char_boundary cannot terminate)" % nm)
            continue
        if probes and all(any(c.dominates(m, p) for m in mins) for p in probes):
            # the value that is returned derives from the min() result
            rets_ok = True
            for bl in b.blocks:
                for st in bl.stmts:
                    if st.kind == 'a' and st.place.is_local() and st.place.local == 0:
                        fl = flow_back(b, d, st.rv.ops[0], all_args=False) if st.rv.ops else []
                        if not any(any(v.endswith("cmp::Ord::min") for v in f.via) for f in fl):
                            rets_ok = False
            if rets_ok:
                chk.ok("R19.5", "clamped:" + nm, "min(index, input_line.len()) dominates the boundary search and feeds the result", function=b.name)
            else:
                chk.fail("R19.5", b.name, "result-not-from-clamped-index", "%s returns a value that does not derive from the clamped index" % nm)
        else:
            chk.fail("R19.5", b.name, "search-before-clamp", "%s probes is_char_boundary before clamping the index" % nm)
    chk.floor("R19.5", "char-boundary clamp functions", n, 2)


ITER_OK = ("Deref>::deref", "[T]::iter", "iterator::Iterator::map", "Highlighted::text", "slice::<impl [T]>::iter")


def render_rule(prog, chk):
    """R19.6: what is rendered is the concatenation of the span texts. Highlighted::iter maps every span (no filtering / skipping
    adapter) through Highlighted::text, which slices the highlighted line itself by the span's own range; and every consumer of
    highlight_command that builds styled text pushes the text of each item on every path of its loop."""
    from dataflow import flow_back
    chk.rule("R19.6", "rendering: Highlighted::iter yields every span's text (slice of the line by the span's range); each consumer pushes every item")
    it = prog.body(MOD + "Highlighted::iter")
    if chk.anchor("R19.6", MOD + "Highlighted::iter", it):
        bad = []
        for b in [it] + [x for x in prog.all_bodies({"brush_interactive"}) if x.name.startswith(MOD + "Highlighted::iter::{closure")]:
            for _, t in b.calls():
                cal = t.best_callee() or t.callee or ""
                if not cal.endswith(ITER_OK):
                    bad.append(cal)
        has_text = any((t.best_callee() or "").endswith("Highlighted::text") for x in prog.all_bodies({"brush_interactive"})
                       if x.name.startswith(MOD + "Highlighted::iter::{closure") for _, t in x.calls())
        if bad:
            chk.fail("R19.6", it.name, "spans-filtered", "Highlighted::iter passes the spans through %s: not every span reaches the renderer, so the rendered text differs "
                     "from the typed line" % sorted(set(x.rsplit("::", 1)[-1] for x in bad)))
        elif not has_text:
            chk.fail("R19.6", it.name, "text-not-from-span", "Highlighted::iter no longer resolves the text of each span through Highlighted::text")
        else:
            chk.ok("R19.6", "iter-maps-every-span", "spans.iter().map(text): no filtering adapter", function=it.name)
    tx = prog.body(MOD + "Highlighted::text")
    if chk.anchor("R19.6", MOD + "Highlighted::text", tx):
        d = defs_of(tx)
        gets = [(bb, t) for bb, t in tx.calls() if (t.best_callee() or t.callee or "").endswith("str::get")]
        good = False
        for bb, t in gets:
            rf = flow_back(tx, d, t.args[0], all_args=False)
            gf = flow_back(tx, d, t.args[1], all_args=False)
            if any(f.kind == 'arg' and f.local == 1 and "line" in f.field_path() for f in rf) and \
               any(f.kind == 'arg' and f.local == 2 and "range" in f.field_path() for f in gf):
                good = True
        ret_from_get = False
        for bl in tx.blocks:
            for st in bl.stmts:
                if st.kind == 'a' and st.place.is_local() and st.place.local == 0:
                    src = st.rv.ops[0] if st.rv.ops else st.rv.place
                    fl = flow_back(tx, d, src, all_args=False)
                    if any(any(v.endswith("str::get") for v in f.via) for f in fl):
                        ret_from_get = True
        if good and ret_from_get:
            chk.ok("R19.6", "text-is-line[range]", "line.get(span.range) of the highlighted line itself", function=tx.name)
        else:
            chk.fail("R19.6", tx.name, "text-not-line-slice", "Highlighted::text no longer returns the slice of the highlighted line selected by the span's own range "
                     "(slice of line by range: %s, returned: %s)" % (good, ret_from_get))
    n = 0
    for b, bb, t in prog.callers_of(MOD + "highlight_command", crates=SHIPPED):
        fn = owner(b.name)
        if "::tests::" in fn or fn.startswith(MOD):
            continue
        n += 1
        c = cfg_of(b)
        d = defs_of(b)
        from dataflow import base_local
        la = base_local(b, d, t.args[1])
        if not (la is not None and 1 <= la <= b.argc):
            chk.fail("R19.6", fn, "line-not-the-typed-line", "%s does not pass its own line argument to highlight_command" % fn)
            continue
        pushes = [pb for pb, pt in b.calls() if (pt.best_callee() or "").endswith("StyledText::push")]
        loops = c.source_loops()
        done = False
        for h, blks in loops.items():
            nexts = [x for x in blks if b.blocks[x].term.kind == "call" and (b.blocks[x].term.best_callee() or b.blocks[x].term.callee or "").endswith("Iterator::next")]
            if not nexts:
                continue
            fl = flow_back(b, d, b.blocks[nexts[0]].term.args[0], all_args=False)
            if not any(any(v.endswith("Highlighted::iter") for v in f.via) for f in fl):
                continue
            done = True
            sw = b.blocks[nexts[0]].term.target
            some = [tg for v, tg in b.blocks[sw].term.targets if v == 1] if b.blocks[sw].term.kind == "switch" else []
            inl = [p for p in pushes if p in blks]
            latch = [x for x in blks if h in c.succ[x]]
            # skipping an item whose text is empty changes nothing that is rendered
            benign = []
            for x in blks:
                tx_ = b.blocks[x].term
                if tx_.kind != "switch":
                    continue
                for o in origins(b, d, tx_.discr):
                    if not (o.kind == 'call' and (o.node.best_callee() or o.node.callee or "").endswith("str::is_empty")):
                        continue
                    # the text tested is the item's text itself (not a trimmed / transformed copy) ...
                    rf = flow_back(b, d, o.node.args[0], all_args=False)
                    direct = bool(rf) and all(f.via and f.via[0].endswith("Iterator::next") for f in rf if f.kind != 'const')
                    # ... and nothing else is asked on the way to the next iteration
                    tgt = tx_.otherwise
                    straight = all(b.blocks[y].term.kind != "switch" for y in (c.reachable_from(tgt, avoid=[h]) & set(blks)))
                    if direct and straight:
                        benign.append(tgt)
            if some and inl and c.escapes(some[0], inl, latch, after=False, avoid=benign) is None:
                # pushed text derives from the item
                pt = b.blocks[inl[0]].term
                tf = flow_back(b, d, pt.args[1], all_args=True)
                if any(any(v.endswith("Iterator::next") for v in f.via) for f in tf):
                    chk.ok("R19.6", "consumer-pushes-every-item:" + fn.rsplit("::", 1)[-1], "StyledText::push of the item's text on every path of the loop", function=fn)
                else:
                    chk.fail("R19.6", fn, "pushed-text-not-item", "%s pushes text that does not come from the iterated span" % fn)
            else:
                chk.fail("R19.6", fn, "item-not-pushed-on-every-path", "%s skips the StyledText::push for some spans (a path from the item to the next iteration avoids it): "
                         "the rendered line loses their text" % fn)
        if not done:
            chk.fail("R19.6", fn, "no-render-loop", "%s calls highlight_command but has no loop over Highlighted::iter" % fn)
    chk.floor("R19.6", "consumers of highlight_command", n, 1)
