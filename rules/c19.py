"""C19 — syntax highlighting (DESIGN §3 C19): the "never fails" clause — the highlighter contains no
unchecked slicing / indexing / unwrap and all span bookkeeping goes through one function."""
from rulelib import SHIPPED, call_sites, cfg_of, defs_of, owner
from dataflow import field_stores, origins
from rules import c01

MOD = "brush_interactive::highlighting::"
FORBIDDEN_PREFIXES = ("index:", "bounds", "unwrap", "expect", "String::", "str::split_at", "slice::", "Vec::remove", "Vec::insert",
                      "Vec::drain", "Vec::swap_remove", "Vec::split_off", "step_by", "RefCell", "block_on", "Handle::current", "panic-abort")


def run(prog, chk):
    chk.explanation = (
        "Decides the `never fails` clause for every body of brush_interactive::highlighting: no str/slice indexing, no unwrap/expect, "
        "no bounds-checked array access, no panicking String/Vec edit API; every usize subtraction is behind a dominating comparison; "
        "string slicing happens only through str::get; spans are pushed and the cursor advanced only inside append_span, where the gap "
        "filler is pushed under `start > current_byte_index`, and every span starts at (a maximum with) current_byte_index with both "
        "bounds clamped to character boundaries, which makes ordered / contiguous / non-overlapping / char-aligned structural. "
        "Not decided: that the final cursor equals the line length for every line (coverage of the tail relies on the last skip_ahead).")
    chk.assumptions = ["rustc MIR of a debug-assertions build", "str::get returns None instead of panicking"]
    chk.rule("R19.1", "no unchecked slicing/indexing/unwrap/edit API in the highlighter; usize subtractions guarded; str::get used for slicing")
    sites, nb = c01._enumerate(prog, scope=lambda fn: fn.startswith(MOD), crates={"brush_interactive"})
    chk.floor("R19.1", "highlighter bodies", nb, 8)
    n_add = n_dbg = 0
    for s in sites:
        if c01._gen_crate(s.exp) is not None:
            continue
        if s.kind == "panic" and c01._is_debug_only(s.exp):
            n_dbg += 1
            continue
        if s.kind.startswith(FORBIDDEN_PREFIXES) or s.kind == "panic":
            chk.fail("R19.1", s.fn, s.kind, "%s uses a panic-capable construct `%s` at %s:%s: a line/cursor that violates its precondition aborts the line editor"
                     % (s.fn, s.kind, s.file, s.line))
        elif s.kind.startswith("overflow:Sub") or s.kind.startswith(("DivisionByZero", "RemainderByZero")):
            why = c01.auto_discharge(s)
            if why:
                chk.ok("R19.1", "%s|%s" % (s.fn, s.kind), why, function=s.fn)
            else:
                chk.fail("R19.1", s.fn, s.kind, "%s subtracts/divides without a dominating guard at %s:%s" % (s.fn, s.file, s.line))
        elif s.kind.startswith("overflow:Add") or s.kind.startswith("overflow:Mul"):
            n_add += 1
        else:
            chk.fail("R19.1", s.fn, s.kind, "unclassified panic-capable construct `%s` at %s:%s" % (s.kind, s.file, s.line))
    chk.ok("R19.1", "offset-sums", "%d usize additions of byte offsets within the in-memory line (cannot overflow before allocation fails)" % n_add, nontrivial=False)
    chk.ok("R19.1", "debug-only-asserts", "%d debug_assert! char-boundary checks (not present in release builds)" % n_dbg, nontrivial=False)
    gets = 0
    for b in prog.all_bodies({"brush_interactive"}):
        if owner(b.name).startswith(MOD):
            gets += len([1 for _, t in b.calls() if (t.callee or "") in ("str::get",) or (t.callee or "").endswith("::str::get") or (t.callee or "") == "core::str::<impl str>::get"])
    chk.floor("R19.1", "str::get slicing sites", gets, 2)

    chk.rule("R19.2", "spans.push and stores to current_byte_index occur only in append_span; the gap filler is conditional on range.start > current_byte_index")
    ap = prog.body(MOD + "Highlighter::append_span")
    npush = 0
    for b in prog.all_bodies({"brush_interactive"}):
        fn = owner(b.name)
        if not fn.startswith(MOD):
            continue
        d = defs_of(b)
        pushes = [(bb, t) for bb, t in b.calls() if (t.callee or "") == "alloc::vec::Vec::push"
                  and any("spans" in o.field_path() for o in origins(b, d, t.args[0]))]
        stores = field_stores(b, "highlighting::Highlighter", "current_byte_index")
        npush += len(pushes)
        if (pushes or stores) and fn != MOD + "Highlighter::append_span":
            chk.fail("R19.2", fn, "span-bookkeeping-outside-append_span", "%s pushes a span / moves current_byte_index itself (%d pushes, %d stores)" % (fn, len(pushes), len(stores)))
        elif pushes or stores:
            chk.ok("R19.2", "bookkeeping@append_span", "%d pushes, %d cursor stores" % (len(pushes), len(stores)), function=fn)
    chk.floor("R19.2", "span pushes", npush, 2)
    if chk.anchor("R19.2", MOD + "Highlighter::append_span", ap):
        c = cfg_of(ap)
        d = defs_of(ap)
        ok = False
        for bl in ap.blocks:
            t = bl.term
            if t.kind == "switch" and t.ty == "bool":
                for o in origins(ap, d, t.discr, transparent=set()):
                    if o.kind == 'op' and o.node.kind == 'bin' and o.node.op in ("Gt", "Lt"):
                        flds = [f for op in o.node.ops for x in origins(ap, d, op, transparent=set()) for f in x.field_path()]
                        if "current_byte_index" in flds:
                            ok = True
        # R19.3: every span handed to HighlightSpan::new starts at a value derived from current_byte_index
        # (directly, or through max(.., current_byte_index)) and ends at a value clamped to be >= its start
        chk.rule("R19.3", "append_span: each pushed span starts at current_byte_index or at max(clamped start, current_byte_index); "
                          "its end is max(.., start); current_byte_index is then set to that end — spans cannot overlap, go backwards or "
                          "split a character (both bounds pass through the char-boundary clamps)")
        news = [(bb, t) for bb, t in ap.calls() if (t.best_callee() or "").endswith("HighlightSpan::new")]
        chk.floor("R19.3", "HighlightSpan::new sites in append_span", len(news), 2)
        for bb, t in news:
            starts_ok = ends_ok = False
            for o in origins(ap, d, t.args[0], transparent=set()):
                if o.kind == 'agg' and (o.node.adt or "").endswith("ops::range::Range"):
                    so, eo = o.node.ops[0], o.node.ops[1]
                    from dataflow import flow_back
                    sf = flow_back(ap, d, so, all_args=True)
                    ef = flow_back(ap, d, eo, all_args=True)
                    if any("current_byte_index" in f.field_path() for f in sf):
                        starts_ok = True
                    # end: derives from max(.., start) i.e. passes an Ord::max call, or is the gap filler's `start`
                    if any(any(v.endswith("cmp::Ord::max") for v in f.via) for f in ef) or any("current_byte_index" in f.field_path() for f in ef):
                        ends_ok = True
            if starts_ok and ends_ok:
                chk.ok("R19.3", "span@line%s" % t.line, "start derives from current_byte_index; end is clamped >= start", function=ap.name)
            else:
                chk.fail("R19.3", ap.name, "span-start-not-anchored", "a span is pushed at line %s whose start does not derive from current_byte_index (start=%s end=%s): spans can overlap or go backwards" % (t.line, starts_ok, ends_ok))
        clamps = [t for _, t in ap.calls() if (t.best_callee() or "").endswith(("floor_char_boundary", "ceil_char_boundary"))]
        if len(clamps) >= 2:
            chk.ok("R19.3", "char-boundary-clamps", "both bounds pass through floor/ceil_char_boundary", function=ap.name)
        else:
            chk.fail("R19.3", ap.name, "no-char-boundary-clamp", "append_span does not clamp its bounds to character boundaries")
        cur_stores = field_stores(ap, "highlighting::Highlighter", "current_byte_index")
        if len(cur_stores) == 1 and c.escapes(0, [cur_stores[0][0]], c.return_blocks(), after=False) is None:
            chk.ok("R19.3", "cursor-advanced-on-all-paths", "current_byte_index = end on every path", function=ap.name)
        else:
            chk.fail("R19.3", ap.name, "cursor-store", "current_byte_index is not set exactly once on every path of append_span (%d stores)" % len(cur_stores))
        if ok:
            chk.ok("R19.2", "gap-filler-conditional", "gap span pushed only under a comparison of range.start with current_byte_index", function=ap.name)
        else:
            chk.fail("R19.2", ap.name, "gap-filler-unconditional", "append_span no longer compares range.start with current_byte_index before filling the gap")
