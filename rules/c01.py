"""C01 — no input crashes the shell (DESIGN §3 C01): complete inventory of panic-capable
constructs in shipped code with auto-discharge, reviewed table, known findings; evaluator totality;
recursion guards."""
import json
import os
import re

from rulelib import SHIPPED, bool_edges, call_sites, callgraph, cfg_of, defs_of, owner, short
from dataflow import base_local, const_value, origins
from facts import canon

VERIF = os.path.dirname(os.path.dirname(os.path.abspath(__file__)))

WORKSPACE_CRATES = {"brush_parser", "brush_core", "brush_builtins", "brush_interactive", "brush_shell", "brush",
                    "brush_coreutils_builtins", "brush_experimental_builtins", "brush_test_harness", "xtask"}
STD_CRATES = {"core", "std", "alloc"}
# std macros that are panic sites written by the programmer (not "generated")
USER_STD_MACROS = {"panic", "unreachable", "todo", "unimplemented", "assert", "assert_eq", "assert_ne", "debug_assert",
                   "debug_assert_eq", "debug_assert_ne", "write", "writeln", "format", "print", "println", "eprint", "eprintln",
                   "vec", "matches", "format_args", "concat", "stringify", "include_str", "cfg", "env", "line", "column", "file",
                   "const_format_args", "panic_2021", "unreachable_2021", "ready", "pin", "try", "thread_local", "dbg"}

PANIC_CALLS = {
    "core::option::Option::unwrap": "unwrap", "core::option::Option::expect": "expect",
    "core::result::Result::unwrap": "unwrap", "core::result::Result::expect": "expect",
    "core::result::Result::unwrap_err": "unwrap", "core::result::Result::expect_err": "expect",
    "core::panicking::panic": "panic", "core::panicking::panic_fmt": "panic", "core::panicking::panic_display": "panic",
    "core::panicking::panic_explicit": "panic", "core::panicking::unreachable_display": "panic",
    "core::panicking::assert_failed": "panic", "core::panicking::panic_nounwind": "panic",
    "std::rt::begin_panic": "panic", "std::rt::panic_fmt": "panic", "core::panicking::panic_const": "panic",
    "core::intrinsics::unreachable": "unreachable_unchecked", "core::hint::unreachable_unchecked": "unreachable_unchecked",
    "std::process::exit": "process-exit", "std::process::abort": "process-abort",
}
# APIs that panic on a violated precondition (argument out of range / wrong state)
PRECONDITION = {
    "core::ops::index::Index::index": "index", "core::ops::index::IndexMut::index_mut": "index",
    "alloc::vec::Vec::remove": "Vec::remove", "alloc::vec::Vec::insert": "Vec::insert", "alloc::vec::Vec::swap_remove": "Vec::swap_remove",
    "alloc::vec::Vec::drain": "Vec::drain", "alloc::vec::Vec::split_off": "Vec::split_off", "alloc::vec::Vec::truncate": None,
    "alloc::collections::vec_deque::VecDeque::remove": None,
    "alloc::string::String::remove": "String::remove", "alloc::string::String::insert": "String::insert",
    "alloc::string::String::insert_str": "String::insert_str", "alloc::string::String::truncate": "String::truncate",
    "alloc::string::String::replace_range": "String::replace_range", "alloc::string::String::split_off": "String::split_off",
    "alloc::string::String::drain": "String::drain",
    "str::split_at": "str::split_at", "[T]::split_at": "slice::split_at", "[T]::copy_from_slice": "slice::copy_from_slice",
    "[T]::chunks": "slice::chunks", "[T]::windows": "slice::windows", "[T]::swap": "slice::swap", "[T]::chunks_exact": "slice::chunks",
    "core::iter::traits::iterator::Iterator::step_by": "step_by",
    "char::from_digit": "char::from_digit", "i64::abs": "abs", "i64::pow": "pow", "i32::abs": "abs", "i32::pow": "pow",
    "u32::pow": "pow", "u64::pow": "pow", "usize::pow": "pow", "isize::abs": "abs",
    "core::cell::RefCell::borrow": "RefCell::borrow", "core::cell::RefCell::borrow_mut": "RefCell::borrow_mut",
    "tokio::runtime::handle::Handle::current": "Handle::current", "tokio::runtime::handle::Handle::block_on": "block_on",
    "tokio::runtime::runtime::Runtime::block_on": "block_on",
    "core::time::Duration::from_secs_f64": "Duration::from_secs_f64", "core::time::Duration::from_secs_f32": "Duration::from_secs_f64",
    "<core::time::Duration as core::ops::arith::Sub>::sub": "Duration-sub", "<core::time::Duration as core::ops::arith::Add>::add": "Duration-add",
    "<std::time::Instant as core::ops::arith::Sub<core::time::Duration>>::sub": "Instant-sub",
    "<std::time::Instant as core::ops::arith::Add<core::time::Duration>>::add": "Instant-add",
    "core::slice::<impl [T]>::split_at": "slice::split_at",
    # dependencies' documented panics
    "rand::rng::RngExt::random_range": "random_range", "rand::Rng::gen_range": "random_range",
    "tokio::task::blocking::block_in_place": "block_in_place",
    "chrono::datetime::DateTime::timestamp_nanos": "chrono-range", "chrono::time_delta::TimeDelta::seconds": "chrono-range",
    "chrono::time_delta::TimeDelta::milliseconds": "chrono-range", "chrono::time_delta::TimeDelta::days": "chrono-range",
    "chrono::time_delta::TimeDelta::hours": "chrono-range", "chrono::time_delta::TimeDelta::minutes": "chrono-range",
    "<chrono::datetime::DateTime as core::ops::arith::Add<chrono::time_delta::TimeDelta>>::add": "chrono-range",
    "<chrono::datetime::DateTime as core::ops::arith::Sub<chrono::time_delta::TimeDelta>>::sub": "chrono-range",
    "chrono::naive::date::NaiveDate::from_ymd": "chrono-range", "chrono::offset::TimeZone::timestamp": "chrono-range",
    "chrono::offset::LocalResult::unwrap": "chrono-range",
}
PRECONDITION = {k: v for k, v in PRECONDITION.items() if v}

# Display implementations (of dependencies) that fail or panic on their own — not only when the writer fails. `to_string()`,
# `format!`, `print!` panic on such a failure ("a Display implementation returned an error unexpectedly"); `write!` returns it.
FALLIBLE_DISPLAY = {
    "chrono::format::formatting::DelayedFormat": "chrono-format",      # Err on an invalid strftime item
    "itertools::format::Format": "itertools-format-once",              # panics when formatted a second time
    "itertools::format::FormatWith": "itertools-format-once",
}
# chrono strftime specifiers accepted by StrftimeItems (chrono 0.4): a constant format made of these cannot fail
CHRONO_SPECS = set("YCyqmbBhdeaAwujUWGgVDxFvHkIlPpMSfTXRrZzcs+tn%")

LEN_LIKE = ("::len", "::count", "::len_utf8", "::position", "::rposition", "::find", "::rfind", "::char_indices", "::enumerate",
            "::offset", "::capacity", "::min", "::max", "::saturating_sub", "::saturating_add", "::unwrap_or", "::unwrap_or_default",
            "::byte_offset", "::chars", "::bytes", "::width", "::index", "::start", "::end", "::checked_sub", "::get")


def _gen_crate(exp):
    """name of the external (non-std, non-workspace) crate whose macro generated this site, or None"""
    if not exp:
        return None
    for part in exp.split(";"):
        if "@" not in part:
            continue
        name, krate = part.rsplit("@", 1)
        if krate in WORKSPACE_CRATES or krate == "?":
            continue
        if krate in STD_CRATES:
            base = name.rsplit("::", 1)[-1]
            if base[:1].isupper():
                return "derive:" + base   # #[derive(..)] expansions
            continue                      # panic!/assert!/write!/… written by the programmer
        return krate
    return None


def _is_debug_only(exp):
    return any(p.split("@")[0] in ("debug_assert", "debug_assert_eq", "debug_assert_ne") for p in (exp or "").split(";") if "@" in p)


class Site:
    __slots__ = ("fn", "kind", "line", "file", "body", "bb", "detail", "exp", "term")

    def key(self):
        return self.kind


def _enumerate(prog, scope=None, crates=SHIPPED):
    sites = []
    nb = 0
    for b in prog.all_bodies(crates):
        fn = owner(b.name)
        if scope is not None and not scope(fn) and not scope(b.name):
            continue
        if b.kind in ("const", "static", "anon_const", "inline_const", "assoc_const"):
            continue   # compile-time evaluated: a panic here is a build error
        nb += 1
        c = cfg_of(b)
        for bl in b.blocks:
            if bl.cleanup or bl.idx not in c.reach:
                continue
            t = bl.term
            kind = None
            detail = ""
            if t.kind == "assert":
                mk = t.raw.get("mk", "")
                if mk.startswith("Resumed") or mk in ("Misaligned", "NullDeref", "InvalidEnum"):
                    continue
                tys = t.raw.get("tys") or []
                if mk.startswith("Overflow:"):
                    op = mk.split(":", 1)[1]
                    kind = "overflow:%s:%s" % (op, tys[0] if tys else "?")
                elif mk == "OverflowNeg":
                    kind = "overflow:Neg:%s" % (tys[0] if tys else "?")
                elif mk in ("DivisionByZero", "RemainderByZero"):
                    kind = "%s:%s" % (mk, tys[0] if tys else "?")
                elif mk == "BoundsCheck":
                    kind = "bounds"
            elif t.kind == "call":
                cal = t.callee or ""
                bc = t.best_callee() or cal
                if cal in PANIC_CALLS or bc in PANIC_CALLS or cal.startswith("core::panicking::panic_const"):
                    kind = PANIC_CALLS.get(cal) or PANIC_CALLS.get(bc) or "panic"
                elif cal in PRECONDITION or bc in PRECONDITION:
                    kind = PRECONDITION.get(cal) or PRECONDITION.get(bc)
                    if kind == "index":
                        st = canon(t.self_ty or "")
                        ga = t.gen_args or ""
                        kind = "index:%s" % _index_class(st, ga)
            if kind is None and t.kind == "call":
                cal = t.callee or ""
                tyargs = None
                if cal == "alloc::string::ToString::to_string":
                    tyargs = str(t.self_ty or "") + " " + str(t.gen_args or "")
                elif cal.endswith(("fmt::rt::Argument::new_display", "fmt::rt::Argument::new_debug")):
                    tyargs = str(t.gen_args or "")
                if tyargs:
                    for fty, fk in FALLIBLE_DISPLAY.items():
                        if fty in tyargs:
                            kind = "fallible-display:%s:%s" % (fk, "to_string" if cal.endswith("to_string") else "fmt-arg")
            if kind is None and t.kind == "call":
                # precondition / panicking APIs passed as *function values* (e.g. `.map(Duration::from_secs_f64)`)
                for a in t.args:
                    if a.const is not None and a.const.fn:
                        fv = canon(a.const.fn)
                        if fv in PRECONDITION or fv in PANIC_CALLS:
                            kind = "fn-value:" + (PRECONDITION.get(fv) or PANIC_CALLS.get(fv))
            if kind is None:
                continue
            s = Site()
            s.fn = fn
            s.kind = kind
            s.line = t.line
            s.file = t.file or b.file
            s.body = b
            s.bb = bl.idx
            s.exp = t.exp
            s.term = t
            s.detail = detail
            sites.append(s)
    return sites, nb


def _index_class(self_ty, gen_args):
    st = self_ty.lstrip("&").replace("mut ", "")
    if "HashMap" in st or "BTreeMap" in st or "IndexMap" in st:
        return "map"
    rng = "range" if "Range" in gen_args else "elem"
    if st.startswith("str") or "String" in st:
        return "str-" + rng
    return "seq-" + rng


# ------------------------------------------------------------------------------------------------
# auto-discharge idioms
def _same_value(body, d, a, b):
    """do two operands denote the same SSA-ish value? (same local, or both copies of the same place)"""
    def root(op):
        if op.const is not None:
            return ("const", op.const.value)
        os_ = origins(body, d, op, transparent=set())
        ks = set()
        for o in os_:
            if o.kind == 'call':
                ks.add(("call", id(o.node), o.path))
            elif o.kind in ('arg', 'unknown'):
                ks.add(("loc", o.node, o.path))
            elif o.kind == 'const':
                ks.add(("const", o.node.value))
            else:
                ks.add((o.kind, id(o.node), o.path))
        return frozenset(ks)
    ra, rb = root(a), root(b)
    return ra == rb and len(ra) > 0


def _cmp_guards(body, c, d, bb):
    """dominating comparisons: yields (op, lhs, rhs, edge_taken) where edge_taken is True if bb lies on
    the true edge only, False if on the false edge only"""
    out = []
    for g in c.dom_set(bb):
        if g == bb:
            continue
        t = body.blocks[g].term
        if t.kind != "switch" or t.ty != "bool":
            continue
        f, tr = bool_edges(t)
        on_true = tr is not None and (bb == tr or bb in c.reachable_from(tr, avoid=[g]))
        on_false = f is not None and (bb == f or bb in c.reachable_from(f, avoid=[g]))
        if on_true == on_false:
            continue
        for o in origins(body, d, t.discr, transparent=set()):
            if o.kind == 'op' and o.node.kind == 'bin' and o.node.op in ("Lt", "Le", "Gt", "Ge", "Eq", "Ne"):
                out.append((o.node.op, o.node.ops[0], o.node.ops[1], on_true))
            if o.kind == 'op' and o.node.kind == 'un' and o.node.op == "Not":
                for oo in origins(body, d, o.node.ops[0], transparent=set()):
                    if oo.kind == 'op' and oo.node.kind == 'bin':
                        out.append((oo.node.op, oo.node.ops[0], oo.node.ops[1], not on_true))
                    if oo.kind == 'call':
                        out.append(("call!", oo.node, None, not on_true))
            if o.kind == 'call':
                out.append(("call", o.node, None, on_true))
    return out


def _implies_ge(op, lhs_is_a, taken):
    """does comparison `x op y` (with x=a if lhs_is_a else x=b) taken on edge `taken` imply a >= b ?"""
    table = {("Ge", True, True), ("Gt", True, True), ("Le", False, True), ("Lt", False, True),
             ("Lt", True, False), ("Le", False, False) , ("Gt", False, False), ("Ge", False, False) if False else ("Gt", False, False)}
    # a >= b follows from: a>=b, a>b, b<=a, b<a (true edge); !(a<b), !(b>a) (false edge)
    return (op, lhs_is_a, taken) in {("Ge", True, True), ("Gt", True, True), ("Le", False, True), ("Lt", False, True),
                                     ("Lt", True, False), ("Gt", False, False)}


LEN_CALLS = ("::len",)
EMPTY_CALLS = ("::is_empty",)
SOME_IF_NONEMPTY = ("::last", "::first", "::last_mut", "::first_mut", "::split_first", "::split_last", "::back", "::front", "::back_mut", "::front_mut")


def _recv_root(body, d, op):
    """root local (and field path) of a collection operand, looking through borrows/derefs and
    Deref::deref / as_slice style views"""
    from dataflow import origins as _o
    roots = set()
    for o in _o(body, d, op):
        if o.kind in ('arg', 'unknown'):
            roots.add((o.node, tuple(p[3] for p in o.path if p[0] == 'f')))
        elif o.kind == 'call':
            roots.add(("call", id(o.node)))
        elif o.kind == 'agg':
            roots.add(("agg", id(o.node)))
    return roots


SHRINKERS = ("::remove", "::pop", "::clear", "::truncate", "::drain", "::retain", "::split_off", "::swap_remove", "::pop_front",
             "::pop_back", "::dedup", "mem::take", "mem::replace", "mem::swap", "::append", "::retain_mut")


def _mutated_between(body, c, d, g, bb, recv_roots):
    """may the collection shrink / be replaced on a path from guard block g to the use at bb?"""
    between = (c.reachable_after(g) & _reaching(c, bb)) | {bb}
    root_locals = {r[0] for r in recv_roots if isinstance(r, tuple) and len(r) == 2 and isinstance(r[0], int)}
    for x in between:
        bl = body.blocks[x]
        for st in bl.stmts:
            if st.kind == 'a' and st.place.is_local() and st.place.local in root_locals:
                return True
        t = bl.term
        if t.kind == "call" and x != bb:
            cal = t.best_callee() or t.callee or ""
            if cal.endswith(SHRINKERS) and t.args and (_recv_root(body, d, t.args[0]) & recv_roots):
                return True
            if t.dest is not None and t.dest.is_local() and t.dest.local in root_locals:
                return True
    return False


_reach_cache = {}


def _reaching(c, bb):
    """blocks from which bb is reachable"""
    key = (id(c), bb)
    r = _reach_cache.get(key)
    if r is None:
        seen = {bb}
        stack = [bb]
        while stack:
            x = stack.pop()
            for p in c.pred[x]:
                if p not in seen:
                    seen.add(p)
                    stack.append(p)
        r = seen
        _reach_cache[key] = r
    return r


def _len_lower_bound(body, c, d, bb, recv_roots):
    """greatest lower bound on len(recv) established by dominating tests on the path to bb (a test is void
    if the collection may shrink or be replaced between the test and the use)"""
    lb = 0
    if not recv_roots:
        return 0
    for g in c.dom_set(bb):
        if g == bb:
            continue
        t = body.blocks[g].term
        if t.kind != "switch":
            continue
        if _mutated_between(body, c, d, g, bb, recv_roots):
            continue
        succs = {}
        for v, tg in t.targets:
            succs.setdefault(tg, []).append(v)
        reach_t = {tg: (bb == tg or bb in c.reachable_from(tg, avoid=[g])) for tg in set(list(succs) + [t.otherwise])}
        taken = [tg for tg, r in reach_t.items() if r]
        if len(taken) != 1:
            continue
        tk = taken[0]
        for o in origins(body, d, t.discr, transparent=set()):
            node = o.node
            neg = False
            if o.kind == 'op' and node.kind == 'un' and node.op == "Not":
                neg = True
                inner = origins(body, d, node.ops[0], transparent=set())
                if len(inner) != 1:
                    continue
                o = inner[0]
                node = o.node
            if o.kind == 'call':
                cal = node.best_callee() or node.callee or ""
                if cal.endswith(EMPTY_CALLS) and node.args and _recv_root(body, d, node.args[0]) & recv_roots and t.ty == "bool":
                    on_true = (tk == t.otherwise)
                    empty_true = on_true != neg
                    if not empty_true:
                        lb = max(lb, 1)
                if cal.endswith(LEN_CALLS) and node.args and _recv_root(body, d, node.args[0]) & recv_roots and t.ty != "bool":
                    # match on the length value
                    if tk in succs and tk != t.otherwise and len(succs[tk]) >= 1:
                        lb = max(lb, min(succs[tk]))
                    elif tk == t.otherwise:
                        listed = sorted(v for vs in succs.values() for v in vs)
                        k = 0
                        while k in listed:
                            k += 1
                        lb = max(lb, k)
            if o.kind == 'op' and node.kind == 'discr':
                # Option returned by last()/first(): Some edge implies non-empty
                src = origins(body, d, node.place, transparent=set())
                for so in src:
                    if so.kind == 'call' and (so.node.best_callee() or so.node.callee or "").endswith(SOME_IF_NONEMPTY) and so.node.args \
                            and _recv_root(body, d, so.node.args[0]) & recv_roots:
                        if tk in succs and succs[tk] == [1]:
                            lb = max(lb, 1)
            if o.kind == 'op' and node.kind == 'bin' and node.op in ("Lt", "Le", "Gt", "Ge", "Eq", "Ne") and t.ty == "bool":
                on_true = (tk == t.otherwise) != neg
                a, b_ = node.ops

                def is_len(op):
                    for x in origins(body, d, op, transparent=set()):
                        if x.kind == 'call' and (x.node.best_callee() or x.node.callee or "").endswith(LEN_CALLS) and x.node.args \
                                and _recv_root(body, d, x.node.args[0]) & recv_roots:
                            return True
                        if x.kind == 'op' and x.node.kind in ('un',) and x.node.op == "PtrMetadata" and _recv_root(body, d, x.node.ops[0]) & recv_roots:
                            return True
                    return False
                ca, cb = const_value(body, d, a), const_value(body, d, b_)
                op = node.op
                if is_len(a) and cb is not None:
                    pass
                elif is_len(b_) and ca is not None:
                    # flip: c op len  ==  len op' c
                    op = {"Lt": "Gt", "Le": "Ge", "Gt": "Lt", "Ge": "Le", "Eq": "Eq", "Ne": "Ne"}[op]
                    cb = ca
                else:
                    continue
                if not on_true:
                    op = {"Lt": "Ge", "Le": "Gt", "Gt": "Le", "Ge": "Lt", "Eq": "Ne", "Ne": "Eq"}[op]
                if op == "Gt":
                    lb = max(lb, cb + 1)
                elif op == "Ge":
                    lb = max(lb, cb)
                elif op == "Eq":
                    lb = max(lb, cb)
                elif op == "Ne" and cb == 0:
                    lb = max(lb, 1)
    return lb


def _chrono_valid(fmt):
    i = 0
    while i < len(fmt):
        if fmt[i] == '%':
            i += 1
            if i < len(fmt) and fmt[i] in "-_0":
                i += 1
            if i < len(fmt) and fmt[i] in ".:#" or (i < len(fmt) and fmt[i].isdigit()):
                return False       # %.f %:z %3f …: not validated here
            if i >= len(fmt) or fmt[i] not in CHRONO_SPECS:
                return False
        i += 1
    return True


def _chrono_discharge(b, d, t, k):
    """(i) every DelayedFormat reaching the site was built by DateTime::format(<constant valid strftime string>);
    (ii) a fmt-arg whose Arguments only reach write_fmt: the failure comes back as fmt::Error, it is not a panic"""
    from dataflow import flow_back, forward_taint
    if k.endswith(":to_string"):
        flows = flow_back(b, d, t.args[0], all_args=True)
        makers = [f.node for f in flows if f.kind == 'call' and "format" in (f.node.best_callee() or "").rsplit("::", 1)[-1]
                  and "chrono" in (f.node.best_callee() or "")]
        if not makers:
            return None
        for m in makers:
            if not (m.best_callee() or "").endswith("::format") or len(m.args) < 2:
                return None
            strs = [g.node.string for g in flow_back(b, d, m.args[1]) if g.kind == 'const']
            if not strs or any(x is None or not _chrono_valid(x) for x in strs):
                return None
        return "constant, valid strftime format string"
    # fmt-arg
    tl = forward_taint(b, {t.dest.local}) if t.dest is not None else set()
    sinks = set()
    for bb, tt in b.calls():
        if any(a.place is not None and a.place.local in tl for a in tt.args):
            c = tt.best_callee() or tt.callee or ""
            if c.endswith(("::write_fmt", "fmt::format", "fmt::format::format_inner", "_print", "_eprint", "panic_fmt", "Formatter::write_fmt")) or "panicking" in c:
                sinks.add(c)
    if sinks and all(x.endswith("::write_fmt") for x in sinks):
        return "formatted with write!: a failing Display comes back as fmt::Error (handled), not as a panic"
    return None


def auto_discharge(site):
    """returns a reason string if the site is provably safe by a local idiom, else None"""
    b = site.body
    c = cfg_of(b)
    d = defs_of(b)
    t = site.term
    k = site.kind
    if k.startswith("fallible-display:chrono-format"):
        r = _chrono_discharge(b, d, t, k)
        if r:
            return r
    if t.kind == "assert":
        cv = const_value(b, d, t.discr)
        if cv is not None and bool(cv) == bool(t.raw.get("exp")):
            return "constant assert condition"
        ops = t.args
        if k.startswith("overflow:Sub") and len(ops) == 2:
            a, bb_ = ops
            for op, l, r, taken in _cmp_guards(b, c, d, site.bb):
                if op in ("call", "call!"):
                    # `!x.is_empty()` / `x.len() > 0` style guards for `len - 1`
                    if const_value(b, d, bb_) == 1 and (l.callee or "").endswith("is_empty") and ((op == "call" and not taken) or (op == "call!" and taken)):
                        return "guarded: !is_empty() dominates `len - 1`"
                    continue
                if _same_value(b, d, l, a) and _same_value(b, d, r, bb_) and _implies_ge(op, True, taken):
                    return "guarded: dominating comparison implies lhs >= rhs"
                if _same_value(b, d, l, bb_) and _same_value(b, d, r, a) and _implies_ge(op, False, taken):
                    return "guarded: dominating comparison implies lhs >= rhs"
                # a - 1 with a != 0 / a > 0 / a >= 1
                if const_value(b, d, bb_) == 1 and _same_value(b, d, l, a):
                    rv = const_value(b, d, r)
                    if (op == "Ne" and rv == 0 and taken) or (op == "Eq" and rv == 0 and not taken) or (op == "Gt" and rv == 0 and taken) or \
                            (op == "Ge" and rv == 1 and taken) or (op == "Lt" and rv == 1 and not taken):
                        return "guarded: lhs != 0 dominates `lhs - 1`"
        if k.startswith("overflow:Add") and len(ops) == 2:
            ty = k.rsplit(":", 1)[1]
            if ty in ("usize", "u64"):
                # counters / lengths: cannot overflow before memory is exhausted
                good = True
                for o in ops:
                    cv2 = const_value(b, d, o)
                    if cv2 is not None and 0 <= cv2 < (1 << 32):
                        continue
                    os_ = origins(b, d, o, transparent=set(), through_ops=False)
                    if os_ and all((x.kind == 'call' and (x.node.callee or "").endswith(LEN_LIKE)) for x in os_):
                        continue
                    good = False
                if good:
                    return "bounded: usize sum of lengths/indices/small constants cannot overflow before allocation fails"
        if k.startswith(("DivisionByZero", "RemainderByZero")) and ops:
            cv2 = const_value(b, d, ops[0])
            if cv2 is not None and cv2 != 0:
                return "constant non-zero divisor"
        if k == "bounds" and len(ops) == 2:
            ixc = const_value(b, d, ops[1])
            if ixc is not None:
                roots = set()
                for x in origins(b, d, ops[0], transparent=set()):
                    if x.kind == 'op' and x.node.kind == 'un' and x.node.op == "PtrMetadata":
                        roots |= _recv_root(b, d, x.node.ops[0])
                if _len_lower_bound(b, c, d, site.bb, roots) > ixc:
                    return "guarded: dominating length test implies len > %d" % ixc
        if k.startswith("overflow:Sub") and len(ops) == 2:
            rc = const_value(b, d, ops[1])
            if rc is not None:
                roots = set()
                for x in origins(b, d, ops[0], transparent=set()):
                    if x.kind == 'call' and (x.node.best_callee() or x.node.callee or "").endswith(LEN_CALLS) and x.node.args:
                        roots |= _recv_root(b, d, x.node.args[0])
                if roots and _len_lower_bound(b, c, d, site.bb, roots) >= rc:
                    return "guarded: dominating length test implies len >= %d" % rc
        if k == "bounds" and len(ops) == 2:
            ln, ix = ops
            for op, l, r, taken in _cmp_guards(b, c, d, site.bb):
                if op in ("call", "call!"):
                    continue
                if _same_value(b, d, l, ix) and _same_value(b, d, r, ln) and ((op == "Lt" and taken) or (op == "Ge" and not taken)):
                    return "guarded: index < len dominates"
    if t.kind == "call" and k in ("index:seq-elem", "index:seq-range", "Vec::remove", "Vec::drain") and len(t.args) >= 2:
        roots = _recv_root(b, d, t.args[0])
        lbd = _len_lower_bound(b, c, d, site.bb, roots)
        ixc = const_value(b, d, t.args[1])
        if ixc is not None and lbd > ixc:
            return "guarded: dominating length test implies len > %d" % ixc
        if k == "index:seq-elem" and ixc is None:
            # variable index: a dominating `ix < recv.len()` (true edge) or `ix >= recv.len()` (false edge)
            for op, l, r, taken in _cmp_guards(b, c, d, site.bb):
                if op in ("call", "call!"):
                    continue

                def _is_len_of(opnd):
                    for x in origins(b, d, opnd, transparent=set()):
                        if x.kind == 'call' and (x.node.best_callee() or x.node.callee or "").endswith(LEN_CALLS) and x.node.args \
                                and _recv_root(b, d, x.node.args[0]) & roots:
                            return True
                    return False
                if _same_value(b, d, l, t.args[1]) and _is_len_of(r) and ((op == "Lt" and taken) or (op == "Ge" and not taken)):
                    return "guarded: index < len dominates"
                if _same_value(b, d, r, t.args[1]) and _is_len_of(l) and ((op == "Gt" and taken) or (op == "Le" and not taken)):
                    return "guarded: index < len dominates"
        if k == "index:seq-range":
            # RangeFrom { start: const }
            for o in origins(b, d, t.args[1], transparent=set()):
                if o.kind == 'agg' and (o.node.adt or "").endswith("RangeFrom") and o.node.ops:
                    st = const_value(b, d, o.node.ops[0])
                    if st is not None and lbd >= st:
                        return "guarded: dominating length test implies len >= %d for `[%d..]`" % (st, st)
    return None


def _load_table():
    p = os.path.join(VERIF, "rules", "c01_table.json")
    if not os.path.exists(p):
        return {}
    raw = json.load(open(p))
    tab = {}
    for e in raw["entries"]:
        tab[(e["function"], e["kind"])] = e
    return tab


def inventory(prog, chk, rid, scope=None, pid="C01", crates=SHIPPED):
    """INV rule. Returns counts. Disposition per site: generated / debug-only / auto / table / violation.
    Keys carry no line numbers: (function, kind); the table bounds the *count* per key."""
    sites, nb = _enumerate(prog, scope, crates)
    table = _load_table()
    counts = {"bodies": nb, "sites": len(sites), "generated": 0, "debug_only": 0, "auto": 0, "table": 0, "violations": 0}
    gen_by = {}
    residual = {}
    for s in sites:
        g = _gen_crate(s.exp)
        if g is not None:
            counts["generated"] += 1
            gen_by[g] = gen_by.get(g, 0) + 1
            continue
        if _is_debug_only(s.exp) and s.kind in ("panic",):
            counts["debug_only"] += 1
            continue
        why = auto_discharge(s)
        if why:
            counts["auto"] += 1
            chk.ok(rid, "%s|%s" % (s.fn, s.kind), why, function=s.fn)
            continue
        residual.setdefault((s.fn, s.kind), []).append(s)
    for (fn, kind), ss in sorted(residual.items()):
        e = table.get((fn, kind))
        if e is not None and e.get("operand_via") and len(ss) <= e["count"]:
            # the reason of this entry rests on where an operand comes from: re-verify it on the current code
            from dataflow import flow_back
            bad = None
            for x in ss:
                dd = defs_of(x.body)
                vias = set()
                for a in x.term.args:
                    for f in flow_back(x.body, dd, a, all_args=True):
                        vias |= set(f.via)
                for need in e["operand_via"]:
                    if not any(v.endswith(need) for v in vias):
                        bad = (x, need)
            if bad is not None:
                counts["violations"] += len(ss)
                chk.fail(rid, fn, kind, "%s: the reviewed reason for `%s` (%s) requires an operand derived from `%s`, which the site at %s:%s no longer has"
                         % (fn, kind, e["reason"], bad[1], bad[0].file, bad[0].line))
                continue
        if e is not None and len(ss) <= e["count"]:
            counts["table"] += len(ss)
            chk.ok(rid, "%s|%s" % (fn, kind), "reviewed (%d site%s): %s" % (len(ss), "" if len(ss) == 1 else "s", e["reason"]), nontrivial=False, function=fn)
        else:
            counts["violations"] += len(ss)
            extra = "" if e is None else " (%d sites, reviewed table allows %d)" % (len(ss), e["count"])
            lines = ", ".join("%s:%s" % (x.file, x.line) for x in ss[:4])
            chk.fail(rid, fn, kind, "%s contains %d unreviewed panic-capable construct(s) of kind `%s`%s at %s: no dominating guard found and not in the reviewed table"
                     % (fn, len(ss), kind, extra, lines), detail={"sites": ["%s:%s" % (x.file, x.line) for x in ss]})
    chk.note(rid + ":inventory", counts)
    chk.note(rid + ":generated_by_macro_crate", gen_by)
    return counts


# reviewed recursion heads: any SCC of the call graph must contain one of these (or consist of peg rule functions)
RECURSION_HEADS = {
    "<brush_parser::ast::Program as brush_core::interp::Execute>::execute":
        "the interpreter: structural recursion over the parsed tree (bounded by the nesting of the input), plus user-level recursion "
        "through functions / eval / source, which is by design as in bash and limited by the opt-in max_function_call_depth (R1.3)",
    "brush_core::arithmetic::eval_expr_impl": "structural on the expression tree; re-evaluation of variable contents is depth-guarded (R1.3 / C07 R7.5)",
    "brush_core::braceexpansion::generate_and_combine_brace_expansions": "structural on the brace-expression tree",
    "brush_core::variables::ShellVariable::assign_at_index": "assign_at_index calls assign once to turn an unset variable into an empty array, which cannot call back with an unset value",
    "brush_parser::tokenizer::Tokenizer::consume_nested_construct": "structural on the nesting of $( ) / ${ } / `…` in the input",
    "brush_interactive::highlighting::Highlighter::highlight_program": "structural on nested command substitutions of the line",
    "brush_core::variables::ShellValue::try_get_cow_str": "Dynamic values resolve through their getter to a concrete (non-Dynamic) value: one extra level",
    "brush_core::variables::ShellValue::get_at": "Dynamic values resolve through their getter to a concrete value: one extra level",
    "brush_core::variables::ShellValue::format": "Dynamic values resolve through their getter to a concrete value: one extra level",
    "brush_core::variables::ShellValue::to_assignable_str": "Dynamic values resolve through their getter to a concrete value: one extra level",
    "brush_core::variables::ShellValue::element_keys": "Dynamic values resolve through their getter to a concrete value: one extra level",
    "brush_core::variables::ShellValue::element_values": "Dynamic values resolve through their getter to a concrete value: one extra level",
    "<brush_core::interfaces::keybindings::KeyAction as core::fmt::Display>::fmt": "structural on the key-action tree",
    "brush_interactive::reedline::edit_mode::UpdatableBindings::flatten_action_into": "structural on the key-action tree",
    "brush_interactive::reedline::edit_mode::translate_action_to_reedline_event": "structural on the key-action tree",
    "brush_interactive::reedline::edit_mode::translate_reedline_event_to_action": "structural on the reedline event tree",
    "brush_interactive::reedline::edit_mode::UpdatableBindings::update": "each nested update() is entered only after an existing key binding was found and removed: bounded by the number of bindings (interactive `bind` only)",
}


def recursion_rule(prog, chk, rid):
    """R1.3(iii): every cycle of the whole-program call graph contains a reviewed recursion head"""
    import sys
    cg = callgraph(prog)
    edges = cg.edges
    index = {}
    low = {}
    onst = set()
    st = []
    sccs = []
    counter = [0]
    sys.setrecursionlimit(max(sys.getrecursionlimit(), 200000))

    def strong(v):
        index[v] = low[v] = counter[0]
        counter[0] += 1
        st.append(v)
        onst.add(v)
        for w in edges.get(v, ()):
            if w not in edges:
                continue
            if w not in index:
                strong(w)
                low[v] = min(low[v], low[w])
            elif w in onst:
                low[v] = min(low[v], index[w])
        if low[v] == index[v]:
            comp = []
            while True:
                w = st.pop()
                onst.discard(w)
                comp.append(w)
                if w == v:
                    break
            if len(comp) > 1 or v in edges.get(v, ()):
                sccs.append(comp)
    for v in list(edges):
        if v not in index and prog.body(v) is not None:
            strong(v)
    n = 0
    for comp in sccs:
        owners = {owner(x) for x in comp}
        n += 1
        if all("::__parse_" in x for x in owners):
            chk.ok(rid, "scc:peg:%s" % sorted(owners)[0].rsplit("::", 1)[-1], "%d peg rule functions: recursion is structural on the input (packrat descent)" % len(owners), nontrivial=False)
            continue
        if all("::tests::" in x for x in owners):
            continue
        heads = [h for h in RECURSION_HEADS if h in owners]
        if heads:
            chk.ok(rid, "scc:%s" % heads[0], "%d functions; %s" % (len(owners), RECURSION_HEADS[heads[0]]), function=heads[0])
        else:
            rep = sorted(owners)[0]
            chk.fail(rid, rep, "unreviewed-recursion", "call-graph cycle without a reviewed recursion head: %s" % sorted(owners)[:6])
    chk.floor(rid, "call-graph cycles", n, 20)


def run(prog, chk):
    chk.explanation = (
        "INV: every panic-capable construct of shipped code (MIR overflow/division/bounds asserts, unwrap/expect/panic calls, "
        "precondition APIs such as indexing, Vec::remove, String::replace_range, step_by, block_on) is enumerated from MIR and must be "
        "macro-generated by an external crate (counted, trusted), discharged by a dominating guard, listed in the reviewed table with a "
        "reason (bounded per (function, kind)), or a known finding. Evaluator totality and recursion guards are shared with C07. "
        "Not decided: termination of loops, stack exhaustion within the depth bound, panics inside dependencies called with valid arguments.")
    chk.assumptions = ["rustc MIR (debug-assertion build: overflow checks present)", "code generated by peg/cached/clap/tokio/tracing/thiserror/async-trait/strum/bon macros is correct",
                       "a new unguarded site in a listed function is reported (someone must add a one-line reason)"]
    chk.rule("R1.1", "complete inventory of panic-capable constructs: generated / guarded / reviewed / known finding")
    counts = inventory(prog, chk, "R1.1")
    chk.floor("R1.1", "bodies scanned", counts["bodies"], 3000)
    chk.floor("R1.1", "panic-capable sites enumerated", counts["sites"], 300)
    # R1.2 / R1.3 shared with C07
    from rules import c07
    chk.rule("R1.4", "counter-bounded loops increment their counter on every cycle (restart / retry limits really bound the loop)")
    bounded_retry_rule(prog, chk, "R1.4")
    chk.rule("R1.5", "printf's re-apply loop stops after one pass when the parsed format has no operand-consuming item (guard computed from the parsed items)")
    printf_guard_rule(prog, chk, "R1.5")
    chk.rule("R1.3", "recursion guards: deref_lvalue depth test; push_function behind the max_function_call_depth test with one caller")
    c07.deref_depth_rule(prog, chk, "R1.3")
    ef = prog.body("brush_core::shell::Shell::enter_function")
    if chk.anchor("R1.3", "brush_core::shell::Shell::enter_function", ef):
        c = cfg_of(ef)
        d = defs_of(ef)
        pf = call_sites(ef, {"brush_core::callstack::CallStack::push_function"})
        ok = False
        for bl in ef.blocks:
            t = bl.term
            if t.kind == "switch" and pf and pf[0][0] in c.reachable_from(bl.idx):
                for o in origins(ef, d, t.discr, transparent=set()):
                    if o.kind == 'op' and o.node.kind == 'bin' and o.node.op in ("Ge", "Gt", "Lt", "Le"):
                        srcs = [x for op in o.node.ops for x in origins(ef, d, op, transparent=set())]
                        if any(x.kind == 'call' and (x.node.best_callee() or "").endswith("function_call_depth") for x in srcs):
                            f, tr = bool_edges(t)
                            bad = tr if o.node.op in ("Ge", "Gt") else f
                            if bad is not None and c.path(bad, [pf[0][0]]) is None:
                                ok = True
        if ok:
            chk.ok("R1.3", "function-depth-guard", "when options.max_function_call_depth is set, push_function is unreachable from the depth >= max edge (the limit is opt-in, as FUNCNEST in bash)", function=ef.name)
        else:
            chk.fail("R1.3", ef.name, "function-depth-guard", "push_function is reachable without the max_function_call_depth test: unbounded recursion overflows the stack")
        if chk.tier == "thorough":
            recursion_rule(prog, chk, "R1.3c")
        callers = {owner(b.name) for b, _, _ in prog.callers_of("brush_core::callstack::CallStack::push_function", crates=SHIPPED)}
        if callers == {"brush_core::shell::Shell::enter_function"}:
            chk.ok("R1.3", "push_function-single-caller", "only enter_function pushes function frames", function=ef.name)
        else:
            chk.fail("R1.3", "(callers)", "push_function-callers", "push_function callers: %s" % sorted(callers))


def bounded_retry_rule(prog, chk, rid):
    """R1.4: a loop that is bounded by a retry/restart counter really counts. For every source loop in the shipped crates in which a
    local counter is (a) compared with a limit on an edge that leaves the loop and (b) incremented by a constant inside the loop, no cycle
    of the loop avoids the increment: otherwise the iterations on that cycle are not bounded by the limit and an input that keeps
    choosing it spins for ever (the completion entry point restarting on status 124 is the in-repo instance)."""
    n = 0
    for b in prog.all_bodies(SHIPPED):
        c = cfg_of(b)
        loops = c.source_loops()
        if not loops:
            continue
        d = defs_of(b)
        for h, blks in loops.items():
            # counters incremented by a constant inside the loop: cnt = (cnt + k).0 after a checked add, or cnt = cnt + k
            incs = {}
            for bb in blks:
                for st in b.blocks[bb].stmts:
                    if st.kind != 'a' or not st.place.is_local():
                        continue
                    og = origins(b, d, st.rv.ops[0], transparent=set(), through_ops=False) if st.rv.ops else []
                    for o in og:
                        if o.kind == 'op' and o.node.kind == 'bin' and o.node.op in ("Add", "AddWithOverflow", "AddUnchecked") and len(o.node.ops) == 2 \
                                and o.node.ops[0].place is not None and o.node.ops[0].place.is_local() and o.node.ops[0].place.local == st.place.local \
                                and const_value(b, d, o.node.ops[1]) is not None:
                            incs.setdefault(st.place.local, set()).add(bb)
            if not incs:
                continue
            for cnt, inc_blocks in incs.items():
                # is cnt compared with a limit on an edge that leaves the loop?
                bounded = False
                for bb in blks:
                    t = b.blocks[bb].term
                    if t.kind != "switch":
                        continue
                    leaves = [s for s in c.succ[bb] if s not in blks or c.path(s, [h], avoid=[x for x in range(len(b.blocks)) if x not in blks]) is None]
                    if not leaves:
                        continue
                    for o in origins(b, d, t.discr, transparent=set()):
                        if o.kind == 'op' and o.node.kind == 'bin' and o.node.op in ("Gt", "Ge", "Lt", "Le", "Eq", "Ne"):
                            sides = [x for op in o.node.ops for x in origins(b, d, op, transparent=set(), through_ops=False)]
                            names = [op.place.local for op in o.node.ops if op.place is not None and op.place.is_local()]
                            # a *named* limit (const item such as MAX_RESTARTS): literal comparisons are ordinary counting / nesting logic
                            limit = any(op.const is not None and op.const.def_path for op in o.node.ops) or \
                                any(x.kind == 'const' and x.node.def_path for op in o.node.ops for x in origins(b, d, op, transparent=set(), through_ops=False))
                            if limit and (cnt in names or any(base_local(b, d, op) == cnt for op in o.node.ops if op.place is not None)):
                                bounded = True
                if not bounded:
                    continue
                n += 1
                fn = owner(b.name)
                p = c.path(h, [h], avoid=set(inc_blocks) | {x for x in range(len(b.blocks)) if x not in blks}, after=True)
                nm = b.local_name(cnt) or "_%d" % cnt
                if p is None:
                    chk.ok(rid, "counted-loop:%s:%s" % (short(fn), nm), "every cycle of the loop increments `%s`" % nm, function=fn)
                else:
                    chk.fail(rid, fn, "retry-loop-cycle-without-increment:" + nm,
                             "%s bounds a loop with the counter `%s`, but the loop has a cycle that does not increment it (blocks %s): the limit does not bound the "
                             "number of iterations on that cycle" % (fn, nm, p[:8]))
    chk.floor(rid, "counter-bounded loops examined", n, 1)


def printf_guard_rule(prog, chk, rid):
    """R1.5: printf re-applies its format while operands remain; the guard that stops after one pass when the format cannot consume an
    operand must be computed from the parsed format items (the same objects that do the consuming), not from the text of the format:
    `%%` contains a `%` but consumes nothing."""
    from dataflow import flow_back
    fnname = "brush_builtins::printf::format_via_uucore"
    b = prog.impl_body(fnname)
    if not chk.anchor(rid, fnname, b):
        return
    c = cfg_of(b)
    d = defs_of(b)
    loops = c.source_loops()
    ok = False
    textual = None
    for h, blks in loops.items():
        if not any((b.blocks[x].term.kind == "call" and (b.blocks[x].term.best_callee() or "").endswith("FormatArguments::is_exhausted")) for x in blks):
            continue
        for bb in blks:
            t = b.blocks[bb].term
            if t.kind != "switch" or not any(s not in blks for s in c.succ[bb]):
                continue
            fl = flow_back(b, d, t.discr, all_args=True)
            vias = {v for f in fl for v in f.via}
            if any(v.endswith("printf::parse_format_string") for v in vias) or any(v.endswith(("Iterator::any", "Iterator>::any")) for v in vias):
                if any(v.endswith("printf::parse_format_string") for v in vias):
                    ok = True
            if any(v.endswith(("str::contains", "str::find", "str::matches")) for v in vias):
                textual = sorted(v for v in vias if v.endswith(("str::contains", "str::find", "str::matches")))[0]
    # a stop request from an item (`\\c`) leaves the outer re-apply loop too
    outer = None
    for h, blks in loops.items():
        if any((b.blocks[x].term.kind == "call" and (b.blocks[x].term.best_callee() or "").endswith("FormatArguments::is_exhausted")) for x in blks):
            if outer is None or len(blks) > len(loops[outer]):
                outer = h
    if outer is not None:
        for bb in loops[outer]:
            t = b.blocks[bb].term
            if t.kind != "switch":
                continue
            for o in origins(b, d, t.discr, transparent=set()):
                if o.kind == 'call' and (o.node.best_callee() or o.node.callee or "").endswith(("PartialEq>::eq", "PartialEq::eq")) and \
                        any("ControlFlow" in b.local_ty(a.place.local) for a in o.node.args if a.place is not None):
                    f_edge, t_edge = bool_edges(t)
                    if t_edge is not None and c.path(t_edge, [outer], avoid=[]) is not None:
                        chk.fail(rid, fnname, "stop-request-stays-in-reapply-loop",
                                 "when a format item asks to stop (ControlFlow::Break, the `\\c` escape) printf only leaves the pass over the format; the re-apply loop "
                                 "goes on with operands that are never consumed: `printf 'a\\cb%s' 1 2` prints for ever")
                    else:
                        chk.ok(rid, "stop-request-leaves-loop", "the Break edge cannot reach the re-apply loop's head again", function=fnname)
    if textual:
        chk.fail(rid, fnname, "reapply-guard-from-format-text",
                 "the guard that stops printf after one pass is computed from the format text (%s), not from the parsed items: `printf '100%%%%\\n' a b` has a `%%` "
                 "but no conversion that consumes an operand and prints for ever" % short(textual))
    elif ok:
        chk.ok(rid, "reapply-guard-from-parsed-items", "the single-pass guard derives from parse_format_string's items", function=fnname)
    else:
        chk.fail(rid, fnname, "reapply-guard-missing", "no exit of the re-apply loop depends on the parsed format items: a format that consumes no operand loops for ever when operands are given")
