"""C16 — EXIT trap exactly once; traps preserve $? (structural clauses, DESIGN §3 C16)."""
from rulelib import (SHIPPED, Summaries, call_sites, callgraph, cfg_of, defs_of, owner,
                     question_mark_source)
from dataflow import field_stores, origins

SHELL = "brush_core::shell::Shell"
ON_EXIT = SHELL + "::on_exit"
INVOKE = SHELL + "::invoke_trap_handler"
PROGRAM_EXEC = "<brush_parser::ast::Program as brush_core::interp::Execute>::execute"

FRONT_ENDS = {
    SHELL + "::run_script",
    SHELL + "::run_dash_c_command",
    "brush_interactive::interactive_shell::InteractiveShell::run_interactively",
}


FRAME_MISMATCH_KINDS = {"NotExecutingCommandString", "NotInInteractiveSession"}


def e_bb_is_user_call(c, b, src, runs_user):
    """ErrOnlyBeforeUserCode may only discharge the `?` on the *first* user-code call itself: no other
    user-code call may precede it in the front-end."""
    src_bb = None
    for bb, t in b.calls():
        if t is src:
            src_bb = bb
    if src_bb is None:
        return False
    for bb, t in b.calls():
        if bb in c.reach and t is not src and t.best_callee() in runs_user and src_bb in c.reachable_after(bb):
            return False
    return True


def run(prog, chk):
    chk.explanation = (
        "Static (MIR CFG) decision of the exit-hook protocol: who calls Shell::on_exit, that each front-end "
        "passes through it on every non-unwind path after user code may have run (with `?` exits discharged only "
        "by callee summaries computed from the callees' MIR), that on_exit is never in a loop, that only on_exit "
        "fires the EXIT handler, the enter/leave + $? save/restore bracket in invoke_trap_handler, and that exec "
        "never calls the hook. Not decided: the runtime order of output, the value of $? seen by the handler.")
    chk.assumptions = ["rustc MIR construction and callee resolution", "await = call site of the awaited async fn",
                       "unwind and coroutine-cancellation edges are not normal exits"]
    cg = callgraph(prog)
    summ = Summaries(prog)
    runs_user = cg.reaches({PROGRAM_EXEC})
    chk.note("functions_reaching_program_execute", len(runs_user))

    # ---- R16.1 WHO calls on_exit --------------------------------------------------------------
    chk.rule("R16.1", "callers of Shell::on_exit are exactly the front-ends, one site each, not in a loop; "
                      "only on_exit invokes the EXIT handler")
    sites = prog.callers_of(ON_EXIT, crates=SHIPPED)
    callers = {}
    for b, bb, t in sites:
        callers.setdefault(owner(b.name), []).append((b, bb, t))
    chk.floor("R16.1", "on_exit callers", len(callers), 3)
    for fn, ss in sorted(callers.items()):
        if fn not in FRONT_ENDS:
            chk.fail("R16.1", fn, "extra-on_exit-caller",
                     "%s calls Shell::on_exit but is not a front-end: a second firing of the EXIT trap becomes possible (%s)"
                     % (fn, ss[0][0].loc(ss[0][2].line)))
            continue
        if len(ss) != 1:
            chk.fail("R16.1", fn, "on_exit-sites", "%d call sites of on_exit in %s (exactly one expected)" % (len(ss), fn))
            continue
        b, bb, t = ss[0]
        c = cfg_of(b)
        in_loop = [h for h, blks in c.source_loops().items() if bb in blks]
        if in_loop:
            chk.fail("R16.1", fn, "on_exit-in-loop", "on_exit call at %s is inside a loop" % b.loc(t.line))
        else:
            chk.ok("R16.1", "single-site:" + fn, "one on_exit site at %s, outside every source loop" % b.loc(t.line), function=fn)
    for fe in FRONT_ENDS:
        if fe not in callers:
            chk.fail("R16.1", fe, "front-end-lost-on_exit", "front-end %s no longer calls Shell::on_exit" % fe)

    # only on_exit passes TrapSignal::Exit to invoke_trap_handler
    inv = prog.callers_of(INVOKE, crates=SHIPPED)
    chk.floor("R16.1", "invoke_trap_handler callers", len(inv), 3)
    for b, bb, t in inv:
        d = defs_of(b)
        os_ = origins(b, d, t.args[1]) if len(t.args) > 1 else []
        variants = set()
        for o in os_:
            if o.kind == 'agg' and o.node.adt == "brush_core::traps::TrapSignal":
                variants.add(o.node.variant)
            else:
                variants.add("?" + o.kind)
        fn = owner(b.name)
        if "Exit" in variants and fn != ON_EXIT:
            chk.fail("R16.1", fn, "exit-handler-invoked-outside-on_exit",
                     "%s invokes the EXIT handler directly (%s)" % (fn, b.loc(t.line)))
        elif any(v.startswith("?") for v in variants) and fn != ON_EXIT:
            # signal value not a literal: must not be able to be Exit -> report for review
            chk.fail("R16.1", fn, "trap-signal-not-literal",
                     "%s passes a non-literal TrapSignal to invoke_trap_handler (%s): cannot exclude EXIT" % (fn, b.loc(t.line)))
        else:
            chk.ok("R16.1", "signal:%s" % fn, "invoke_trap_handler(%s)" % ",".join(sorted(variants)), function=fn)

    # ---- R16.2 must pass through on_exit ----------------------------------------------------
    chk.rule("R16.2", "in each front-end every non-unwind path from the first call that can run user code to Return "
                      "passes the on_exit call; a `?` exit is discharged only if its callee is NoErr (returns only Ok) "
                      "by its own MIR")
    # stack balance (C18 R18.1) is a premise of the ErrOnlyFrameMismatch discharge: evaluate it here too
    from rules import c18
    unbalanced = ["%s: %s" % (fn, esc[0][1]) for fn, acq, rels, pb, pt, esc in c18.pair_findings(prog, summ) if esc]
    unbalanced_blocks = {}
    for fe in sorted(FRONT_ENDS):
        b = prog.impl_body(fe)
        if not chk.anchor("R16.2", fe, b):
            continue
        c = cfg_of(b)
        on_exit_bbs = [bb for bb, t in call_sites(b, {ON_EXIT})]
        if not on_exit_bbs:
            continue  # reported by R16.1
        user_bbs = []
        for bb, t in b.calls():
            if bb in c.reach and t.best_callee() in runs_user and t.best_callee() != ON_EXIT:
                user_bbs.append((bb, t))
        if not user_bbs:
            chk.fail("R16.2", fe, "no-user-code-call", "no call that reaches Program::execute found in %s" % fe)
            continue
        rets = c.return_blocks()
        # discharge error exits whose source cannot fail
        discharged = set()
        reasons = {}
        err_info = {}
        for e in c.error_exit_blocks():
            src = question_mark_source(b, e)
            nm = src.best_callee() if src is not None else None
            err_info[e] = (src, nm)
            why = None
            if nm is not None:
                if summ.no_err(nm):
                    why = "NoErr: callee returns only Ok(..) by its MIR"
                elif src is not None and (e_bb_is_user_call(c, b, src, runs_user)) and summ.err_only_before(nm, runs_user)[0]:
                    why = "ErrOnlyBeforeUserCode: every error exit of the callee precedes its first user-code call"
                else:
                    ks = summ.err_kinds(nm)
                    if ks is not None and ks and ks <= FRAME_MISMATCH_KINDS and unbalanced:
                        # the discharge below rests on stack balance; it does not hold on this tree
                        unbalanced_blocks[e] = unbalanced[0]
                    elif ks is not None and ks and ks <= FRAME_MISMATCH_KINDS:
                        why = ("ErrOnlyFrameMismatch: callee can only fail with %s, i.e. when the call-stack top is not the frame "
                               "pushed by the paired start_* call; excluded by stack balance (C18 R18.1)" % sorted(ks))
            if why:
                discharged.add(e)
                reasons[e] = why
        reported = set()
        for ubb, ut in user_bbs:
            # iterate: find every distinct escaping exit
            avoid = set(discharged)
            while True:
                p = c.escapes(ubb, on_exit_bbs, rets, after=True, avoid=avoid)
                if p is None:
                    break
                errs = [x for x in p if x in err_info]
                if errs:
                    e = errs[0]
                    src, nm = err_info[e]
                    key = "?:" + (nm or "unknown")
                    avoid.add(e)
                    if (key) in reported:
                        continue
                    reported.add(key)
                    line = src.line if src is not None else b.blocks[e].term.line
                    extra = "callee is not NoErr"
                    if e in unbalanced_blocks:
                        extra = ("its only failure is a call-stack frame mismatch, which is feasible because stack balance does not hold: %s"
                                 % unbalanced_blocks[e])
                    chk.fail("R16.2", fe, key,
                             "`?` on %s at %s leaves %s without calling on_exit after user code may have run (first user-code call: %s at line %s); %s"
                             % (nm, b.loc(line), fe, ut.best_callee(), ut.line, extra),
                             detail={"path_blocks": p})
                else:
                    key = "normal-path"
                    if key not in reported:
                        reported.add(key)
                        chk.fail("R16.2", fe, key, "a non-error path from %s (line %s) reaches Return without on_exit: blocks %s"
                                 % (ut.best_callee(), ut.line, p), detail={"path_blocks": p})
                    break
        for e in sorted(discharged):
            chk.ok("R16.2", "discharged-?:%s:%s" % (fe, err_info[e][1]), reasons[e], function=fe)
        if not reported:
            chk.ok("R16.2", "must-pass:" + fe, "all %d paths-from-user-code obligations pass on_exit" % len(user_bbs), function=fe)

    # ---- R16.3 handler bracket -----------------------------------------------------------------
    chk.rule("R16.3", "invoke_trap_handler: re-entrancy test dominates enter_trap_handler; leave_trap_handler and the "
                      "restore of last_exit_status post-dominate the handler run")
    b = prog.impl_body(INVOKE)
    if chk.anchor("R16.3", INVOKE, b):
        c = cfg_of(b)
        rets = c.return_blocks()
        enter = call_sites(b, {SHELL + "::enter_trap_handler"})
        leave = call_sites(b, {SHELL + "::leave_trap_handler"})
        active = call_sites(b, {"brush_core::callstack::CallStack::is_trap_signal_active"})
        runs = [(bb, t) for bb, t in b.calls() if bb in c.reach and t.best_callee() in runs_user]
        if not (enter and leave and active and runs):
            chk.fail("R16.3", INVOKE, "bracket-anchors", "enter/leave/is_trap_signal_active/run call missing: %s %s %s %s"
                     % (len(enter), len(leave), len(active), len(runs)))
        else:
            ebb = enter[0][0]
            if all(c.dominates(abb, ebb) for abb, _ in active[:1]):
                # the guard must actually branch to a return that skips enter
                abb = active[0][0]
                skip = c.escapes(abb, [ebb], rets, after=True)
                if skip is None:
                    chk.fail("R16.3", INVOKE, "guard-has-no-skip-edge", "is_trap_signal_active result does not lead to an exit that skips the handler")
                else:
                    chk.ok("R16.3", "reentrancy-guard", "is_trap_signal_active dominates enter_trap_handler and has a skipping exit", function=INVOKE)
            else:
                chk.fail("R16.3", INVOKE, "guard-not-dominating", "is_trap_signal_active does not dominate enter_trap_handler")
            for rbb, rt in runs:
                if not c.dominates(ebb, rbb):
                    chk.fail("R16.3", INVOKE, "run-before-enter", "handler run at line %s is not dominated by enter_trap_handler" % rt.line)
                p = c.escapes(rbb, [x for x, _ in leave], rets, after=True)
                if p is not None:
                    chk.fail("R16.3", INVOKE, "leave-not-postdominating",
                             "path from handler run (line %s) to Return without leave_trap_handler: %s" % (rt.line, p))
                else:
                    chk.ok("R16.3", "leave-postdominates-run", "every path from the handler run passes leave_trap_handler", function=INVOKE)
                # $? restore
                stores = field_stores(b, "shell::Shell", "last_exit_status")
                sbbs = [x for x, _, _ in stores]
                p = c.escapes(rbb, sbbs, rets, after=True) if sbbs else [rbb]
                if p is not None:
                    chk.fail("R16.3", INVOKE, "status-restore-missing",
                             "path from handler run to Return without restoring last_exit_status: %s" % p)
                else:
                    # the stored value must be a local saved before the run (dominating def)
                    d = defs_of(b)
                    good = False
                    for sbb, si, st in stores:
                        for o in origins(b, d, st.rv.ops[0]) if st.rv.kind == 'use' else []:
                            if 'last_exit_status' in o.field_path():
                                good = True
                    # the saved copy: a local assigned from self.last_exit_status in a block dominating the run
                    saved = False
                    for bl in b.blocks:
                        for s in bl.stmts:
                            if s.kind == 'a' and s.rv.kind == 'use' and s.rv.ops[0].place is not None and \
                                    s.rv.ops[0].place.field_names()[-1:] == ['last_exit_status'] and c.dominates(bl.idx, rbb):
                                saved = True
                    if saved:
                        chk.ok("R16.3", "status-restore", "last_exit_status saved before and stored back after the handler run on every path", function=INVOKE)
                    else:
                        chk.fail("R16.3", INVOKE, "status-not-saved-before-run", "no read of last_exit_status dominating the handler run")

    # ---- R16.4 exec never runs the hook ----------------------------------------------------------
    chk.rule("R16.4", "no function that calls CommandExt::exec can reach on_exit before it")
    execs = prog.callers_of("std::os::unix::process::CommandExt::exec", crates=SHIPPED)
    chk.floor("R16.4", "CommandExt::exec sites", len(execs), 1)
    reach_on_exit = cg.reaches({ON_EXIT})
    for b, bb, t in execs:
        c = cfg_of(b)
        bad = []
        for cbb, ct in b.calls():
            if cbb in c.reach and ct.best_callee() in reach_on_exit and bb in c.reachable_after(cbb):
                bad.append(ct)
        if bad:
            chk.fail("R16.4", owner(b.name), "on_exit-before-exec", "%s can reach on_exit before exec at %s" % (bad[0].best_callee(), b.loc(t.line)))
        else:
            chk.ok("R16.4", "exec:" + owner(b.name), "no callee on a path to exec reaches on_exit", function=owner(b.name))
    exit_in_handler_rule(prog, chk)
    reentrancy_mark_rule(prog, chk)


def exit_in_handler_rule(prog, chk):
    """R16.5: "the process ends with that status unless the handler itself calls `exit`". invoke_trap_handler restores `$?` after the
    handler (R16.3), so an `exit N` inside the EXIT handler can only decide the final status if on_exit looks at the handler's result:
    a store to the last exit status (or a returned exit code) control dependent on the ExitShell control flow of that result."""
    chk.rule("R16.5", "on_exit inspects the EXIT handler's result: when the handler called `exit`, its status becomes the status the shell ends with")
    b = prog.impl_body(ON_EXIT)
    if not chk.anchor("R16.5", ON_EXIT, b):
        return
    c = cfg_of(b)
    d = defs_of(b)
    inv = [(bb, t) for bb, t in b.calls() if (t.best_callee() or "").endswith("::invoke_trap_handler")]
    if not inv:
        chk.fail("R16.5", ON_EXIT, "handler-call-missing", "on_exit does not call invoke_trap_handler")
        return
    from rulelib import enum_switches
    sws = [x for x in enum_switches(prog, b, "brush_core::results::ExecutionControlFlow") if c.dominates(inv[0][0], x[0])]
    sets = [bb for bb, t in b.calls() if (t.best_callee() or "").endswith(("::set_last_exit_status",))] + \
        [bb for bb, i, s in field_stores(b, "shell::Shell", "last_exit_status")]
    ok = any(any(x in c.reachable_from(m.get("ExitShell", -1)) for x in sets) for sbb, m, other, rest, _ in sws if m.get("ExitShell") is not None)
    # alternatively the exit code is handed to the caller
    returns_code = "ExecutionExitCode" in b.ret or "ExecutionResult" in b.ret
    if ok or (sws and returns_code):
        chk.ok("R16.5", "exit-in-handler-decides-status", "the handler's ExitShell result is turned into the final status", function=ON_EXIT)
    else:
        chk.fail("R16.5", ON_EXIT, "exit-in-exit-handler-ignored",
                 "on_exit discards the result of the EXIT handler; invoke_trap_handler restores `$?` after it, and the front-ends end with the status saved "
                 "before the handler: `trap 'exit 3' EXIT; true` ends with 0 (bash 3), `trap 'exit 0' EXIT; exit 99` with 99 (bash 0)")


CS = "brush_core::callstack::CallStack"
MARK_MUTATORS = {"insert": CS + "::push_trap_handler", "remove": CS + "::pop", "clear": CS + "::clear_active_trap_signals"}
MARK_READERS = ("contains", "len", "is_empty", "iter", "clone", "get")


def reentrancy_mark_rule(prog, chk):
    """R16.6: "a handler never re-enters itself" rests on the per-signal in-progress marks (CallStack.active_trap_signals). A mark is set when
    the handler frame is pushed, removed — that signal only — when *its* frame is popped, and the set as a whole is cleared only for the
    call stack of a subshell clone. Clearing the set (or removing another signal) when a handler finishes forgets that an outer handler
    is still running: a nested DEBUG/ERR handler would let the outer ERR handler fire inside itself."""
    from dataflow import flow_back
    chk.rule("R16.6", "trap in-progress marks: inserted only by push_trap_handler, removed only by pop (the popped frame's own signal), cleared only "
                      "through clear_active_trap_signals, which only the subshell clone calls on a cloned stack")
    n = 0
    for b in prog.all_bodies({"brush_core"}):
        fn = owner(b.name)
        if not fn.startswith("brush_core::callstack::"):
            continue          # the field is private to the module
        d = None
        for bb, t in b.calls():
            cal = t.best_callee() or t.callee or ""
            if "HashSet" not in cal or not t.args:
                continue
            d = d or defs_of(b)
            if not any("active_trap_signals" in f.field_path() for f in flow_back(b, d, t.args[0], all_args=False)):
                continue
            m = cal.rsplit("::", 1)[-1]
            n += 1
            if m in MARK_READERS:
                continue
            if MARK_MUTATORS.get(m) == fn:
                if m == "remove":
                    # the removed signal is the payload of the frame that was just popped
                    af = flow_back(b, d, t.args[1], all_args=False)
                    if any("frame_type" in f.field_path() for f in af):
                        chk.ok("R16.6", "pop-removes-own-signal", "remove(signal of the popped TrapHandler frame)", function=fn)
                    else:
                        chk.fail("R16.6", fn, "pop-removes-foreign-signal", "CallStack::pop removes a signal that is not the popped frame's own")
                else:
                    chk.ok("R16.6", "%s@%s" % (m, fn.rsplit("::", 1)[-1]), "reviewed mutator", function=fn)
            else:
                chk.fail("R16.6", fn, "in-progress-marks-%s" % m,
                         "%s applies HashSet::%s to the trap in-progress marks (%s): when a nested handler (DEBUG inside ERR) finishes, the outer handler's mark is lost "
                         "and the outer trap can fire inside its own handler" % (fn, m, b.loc(t.line)))
        for bb, i, st in field_stores(b, "callstack::CallStack", "active_trap_signals"):
            if fn not in (CS + "::new", "<" + CS + " as core::default::Default>::default"):
                chk.fail("R16.6", fn, "in-progress-marks-replaced", "%s replaces the whole set of trap in-progress marks (%s)" % (fn, b.loc(b.blocks[bb].term.line)))
    chk.floor("R16.6", "uses of the in-progress marks", n, 3)
    callers = prog.callers_of(CS + "::clear_active_trap_signals", crates=SHIPPED)
    if not callers:
        chk.ok("R16.6", "marks-never-cleared-wholesale", "clear_active_trap_signals has no caller", nontrivial=False, function=CS + "::clear_active_trap_signals")
    for b, bb, t in callers:
        fn = owner(b.name)
        d = defs_of(b)
        fl = flow_back(b, d, t.args[0], all_args=False)
        from_clone = any(any(v.endswith("Clone>::clone") or v.endswith("Clone::clone") for v in f.via) for f in fl)
        if from_clone:
            chk.ok("R16.6", "cleared-on-a-clone@" + fn.rsplit("::", 1)[-1], "the marks are cleared on a cloned call stack (subshell)", function=fn)
        else:
            chk.fail("R16.6", fn, "marks-cleared-on-live-stack", "%s clears the trap in-progress marks of a live call stack (%s): handlers in progress can re-enter themselves"
                     % (fn, b.loc(t.line)))
