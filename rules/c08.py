"""C08 — pattern matching (DESIGN §3 C08): whole-string anchoring, complete metacharacter
tables, sort + dot policy in pathname expansion."""
import re

from rulelib import SHIPPED, bool_edges, call_sites, cfg_of, defs_of, owner, short, switches_on_field
from dataflow import base_local, const_value, forward_taint, origins
from facts import canon
from rules.c13 import true_chars

PAT = "brush_core::patterns::Pattern"
COMPILE = "brush_core::regex::compile_regex"
REGEX_META = set("\\^$.|?*+()[]{}")

# callers of Pattern::to_regex that implement *whole-string* matching must pass (true, true)
WHOLE_STRING_CALLERS = {PAT + "::exactly_matches", PAT + "::expand"}


def run(prog, chk):
    chk.explanation = (
        "Static decision of the anchoring mechanism: every inline-flag group prepended to a compiled regex contains `s` (dot matches "
        "newline) and not `m` (so ^/$ anchor the whole string, not a line); exactly_matches and pathname expansion compile with both "
        "anchors; to_regex_str emits `^`/`$` under its two flags; the literal-escaping character tables contain every regex "
        "metacharacter and the parser-side table is a superset; pathname expansion sorts each directory's matches before appending "
        "and filters dot-files under the option unless the component starts with a dot. Not decided: the pattern→regex translation "
        "for all patterns (bracket edge cases, extglob), collation order.")
    chk.assumptions = ["rustc MIR", "fancy_regex inline flags: m = multi-line anchors, s = dot matches newline", "format literal from the call-site snippet"]

    # ---- R8.1 anchoring ----------------------------------------------------------------------------------
    chk.rule("R8.1", "regex flag groups contain `s` and not `m`; whole-string matchers call to_regex(true, true); to_regex_str emits ^ and $ under its flags")
    cb = prog.body(COMPILE)
    if chk.anchor("R8.1", COMPILE, cb):
        groups = []
        for bl in cb.blocks:
            if bl.cleanup:
                continue
            t = bl.term
            texts = []
            if t.snip:
                texts.append(t.snip)
            for a in t.args:
                if a.const is not None and a.const.string:
                    texts.append(a.const.string)
            for s in bl.stmts:
                if s.kind == 'a':
                    for o in s.rv.ops:
                        if o.const is not None and o.const.string:
                            texts.append(o.const.string)
            for tx in texts:
                for m in re.finditer(r"\(\?([a-zA-Z]+)\)", tx):
                    groups.append((m.group(1), t.line))
        uniq = sorted({g for g, _ in groups})
        chk.floor("R8.1", "inline flag groups in compile_regex", len(uniq), 1)
        for g in uniq:
            if 'm' in g:
                chk.fail("R8.1", COMPILE, "multi-line-anchors:(?%s)" % g,
                         "compile_regex prefixes (?%s): with `m`, ^ and $ match at line boundaries, so `case $'x\\nabc' in abc)` matches one line of the subject" % g)
            elif 's' not in g:
                chk.fail("R8.1", COMPILE, "dot-excludes-newline:(?%s)" % g, "compile_regex prefixes (?%s) without `s`: `*` and `?` stop matching newlines" % g)
            else:
                chk.ok("R8.1", "flags:(?%s)" % g, "dot matches newline; ^/$ anchor the whole string", function=COMPILE)
        if not call_sites(cb, {"fancy_regex::RegexBuilder::new"}):
            chk.fail("R8.1", COMPILE, "builder-missing", "compile_regex no longer builds through fancy_regex::RegexBuilder")
    n = 0
    for b, bb, t in prog.callers_of(PAT + "::to_regex", crates=SHIPPED):
        fn = owner(b.name)
        d = defs_of(b)
        consts = tuple(const_value(b, d, a) for a in t.args[1:3])
        n += 1
        if fn in WHOLE_STRING_CALLERS or fn.startswith("brush_core::patterns::remove_"):
            if consts == (1, 1):
                chk.ok("R8.1", "anchored:%s" % fn, "to_regex(true, true)", function=fn)
            else:
                chk.fail("R8.1", fn, "unanchored-whole-match", "%s compiles its pattern with to_regex%s: a match no longer has to cover the whole string" % (fn, consts))
        else:
            chk.ok("R8.1", "to_regex%s@%s" % (consts, fn), "search-style use (substring replacement / prefix listing)", nontrivial=False, function=fn)
    chk.floor("R8.1", "to_regex call sites", n, 6)
    tb = prog.body(PAT + "::to_regex_str")
    if chk.anchor("R8.1", PAT + "::to_regex_str", tb):
        c = cfg_of(tb)
        d = defs_of(tb)
        pushes = [(bb, t) for bb, t in call_sites(tb, {"alloc::string::String::push"})]
        for ch, argname in (('^', "strict_prefix_match"), ('$', "strict_suffix_match")):
            ok = False
            for bb, t in pushes:
                if const_value(tb, d, t.args[1]) == ord(ch):
                    for bl in tb.blocks:
                        tt = bl.term
                        if tt.kind == "switch" and c.dominates(bl.idx, bb):
                            if any(o.kind == 'arg' and tb.local_name(o.node) == argname for o in origins(tb, d, tt.discr)):
                                f, tr = bool_edges(tt)
                                if f is not None and c.path(f, [bb]) is None:
                                    ok = True
            if ok:
                chk.ok("R8.1", "emits:%s" % ch, "`%s` pushed exactly under %s" % (ch, argname), function=tb.name)
            else:
                chk.fail("R8.1", tb.name, "anchor-char:%s" % ch, "to_regex_str no longer pushes `%s` under %s" % (ch, argname))
        # literal pieces escaped through the table
        if any((t.callee or "") == "brush_core::regex::regex_char_is_special" for _, t in tb.calls()):
            chk.ok("R8.1", "literal-escaped", "Literal pieces consult regex_char_is_special", function=tb.name)
        else:
            chk.fail("R8.1", tb.name, "literal-not-escaped", "to_regex_str no longer escapes Literal pieces through regex_char_is_special")
    # default + set_multiline callers (reported)
    for b, bb, t in prog.callers_of(PAT + "::set_multiline", "brush_core::regex::Regex::set_multiline", crates=SHIPPED):
        d = defs_of(b)
        chk.ok("R8.1", "set_multiline(%s)@%s" % (const_value(b, d, t.args[1]) if len(t.args) > 1 else "?", owner(b.name)),
               "reported: flag only selects whether the (?s) group is added", nontrivial=False, function=owner(b.name))

    # ---- R8.2 tables ---------------------------------------------------------------------------------------
    chk.rule("R8.2", "regex_char_is_special ⊇ regex metacharacters; brush_parser::pattern::regex_char_needs_escaping ⊇ regex_char_is_special")
    sb = prog.body("brush_core::regex::regex_char_is_special")
    nb = prog.body("brush_parser::pattern::regex_char_needs_escaping")
    if chk.anchor("R8.2", "brush_core::regex::regex_char_is_special", sb) and chk.anchor("R8.2", "brush_parser::pattern::regex_char_needs_escaping", nb):
        s1 = true_chars(sb)
        s2 = true_chars(nb)
        chk.note("regex_char_is_special", "".join(sorted(s1)))
        chk.note("regex_char_needs_escaping", "".join(sorted(s2)))
        for ch in sorted(REGEX_META):
            if ch in s1:
                chk.ok("R8.2", "special:%r" % ch, "escaped in literal pattern pieces", function=sb.name)
            else:
                chk.fail("R8.2", sb.name, "special-missing:%r" % ch, "regex metacharacter %r is not in regex_char_is_special: a quoted %r in a pattern is interpreted as regex syntax" % (ch, ch))
            if ch in s2:
                chk.ok("R8.2", "needs-escaping:%r" % ch, "escaped by the pattern translator", function=nb.name)
            else:
                chk.fail("R8.2", nb.name, "needs-escaping-missing:%r" % ch, "regex metacharacter %r is not in regex_char_needs_escaping" % ch)
        if not s1 <= s2:
            chk.fail("R8.2", nb.name, "sibling-subset", "regex_char_needs_escaping lacks %s which regex_char_is_special has" % sorted(s1 - s2))

    # ---- R8.3 expansion ---------------------------------------------------------------------------------------
    chk.rule("R8.3", "Pattern::expand: each directory's matches are sorted before being appended; the dot-file filter depends on "
                     "require_dot_in_pattern_to_match_dot_files and on the component starting with a dot")
    eb = prog.body(PAT + "::expand")
    if chk.anchor("R8.3", PAT + "::expand", eb):
        c = cfg_of(eb)
        d = defs_of(eb)
        appends = call_sites(eb, {"alloc::vec::Vec::append"})
        sorts = [(bb, t) for bb, t in eb.calls() if (t.callee or "").endswith(("slice::sort", "slice::sort_unstable", "slice::sort_by", "slice::sort_by_key"))
                 or (t.best_callee() or "").endswith(("::sort", "::sort_unstable"))]
        reads = [(bb, t) for bb, t in eb.calls() if (t.callee or "").endswith("Path::read_dir")]
        if not (appends and reads):
            chk.fail("R8.3", eb.name, "anchors", "read_dir / Vec::append not found in Pattern::expand")
        else:
            rbb = reads[0][0]
            p = c.escapes(rbb, [x for x, _ in sorts], [x for x, _ in appends], after=True, avoid=c.error_exit_blocks())
            if not sorts or p is not None:
                chk.fail("R8.3", eb.name, "matches-not-sorted", "a path from read_dir to Vec::append skips the sort: pathname expansion returns directory order")
            else:
                chk.ok("R8.3", "sort-before-append", "sort lies on every path from read_dir to append", function=eb.name)
        # dot policy
        opt = [s for bl in eb.blocks for s in bl.stmts if s.kind == 'a' and s.rv.kind in ('use', 'un', 'bin') and
               any("require_dot_in_pattern_to_match_dot_files" in o.field_path() for op in s.rv.ops for o in origins(eb, d, op, through_ops=True))]
        starts = [t for _, t in eb.calls() if (t.callee or "").endswith("str::starts_with")]
        filt = [t for _, t in eb.calls() if (t.callee or "").endswith("Iterator::filter")]
        # the closure that reads the policy
        pol = False
        for bl in eb.blocks:
            for s in bl.stmts:
                if s.kind == 'a' and s.rv.kind == 'agg' and s.rv.raw.get("ak") == "closure":
                    cbody = prog.body(canon(s.rv.raw["def"]))
                    if cbody is not None and any((t.callee or "").endswith("DirEntry::file_name") for _, t in cbody.calls()) \
                            and any((t.callee or "").endswith("starts_with") for _, t in cbody.calls()):
                        # captured operands derive from the option
                        for o in s.rv.ops:
                            dep = any("require_dot_in_pattern_to_match_dot_files" in x.field_path() for x in origins(eb, d, o, through_ops=True))
                            if not dep:
                                # `a = !opt || b` lowers to control flow: the captured local's definitions are control
                                # dependent on a switch over the option field
                                loc = base_local(eb, d, o)
                                dbs = [x[1] for x in d.of(loc)] if loc is not None else []
                                for gb, gt in switches_on_field(eb, "require_dot_in_pattern_to_match_dot_files"):
                                    if dbs and all(c.dominates(gb, x) for x in dbs):
                                        succs = c.succ[gb]
                                        if any(any(x not in c.reachable_from(sx, avoid=[gb]) for sx in succs) for x in dbs):
                                            dep = True
                            if dep:
                                # and the closure is used as a filter
                                tl = forward_taint(eb, {s.place.local})
                                if any(a.place is not None and a.place.local in tl for t in filt for a in t.args):
                                    pol = True
        # the policy of one path component must not be carried over to the next: the captured flag is (re)defined inside the loop over
        # components and has no definition outside it that reaches the closure
        carried = None
        loops_e = c.source_loops()
        for bl in eb.blocks:
            for s in bl.stmts:
                if s.kind == 'a' and s.rv.kind == 'agg' and s.rv.raw.get("ak") == "closure":
                    cbody = prog.body(canon(s.rv.raw["def"]))
                    if cbody is None or not (any((t.callee or "").endswith("DirEntry::file_name") for _, t in cbody.calls())
                                             and any((t.callee or "").endswith("starts_with") for _, t in cbody.calls())):
                        continue
                    encl = [blks for h, blks in loops_e.items() if bl.idx in blks]
                    if not encl:
                        continue
                    comp_loop = max(encl, key=len)          # outermost loop around the closure = loop over path components
                    for o in s.rv.ops:
                        loc = base_local(eb, d, o)
                        if loc is None or eb.local_ty(loc).replace("&", "").strip() != "bool":
                            continue
                        outside = [x[1] for x in d.of(loc) if x[1] not in comp_loop]
                        if outside:
                            carried = (eb.local_name(loc) or "_%d" % loc, eb.blocks[outside[0]].term.line)
        # "the pattern starts with a dot" is a statement about its first piece: an `any` over the pieces also accepts a dot at the start of
        # a later piece (`*".txt"` would match `.hidden.txt`)
        any_over_pieces = None
        for bb_, t_ in eb.calls():
            cal_ = t_.best_callee() or t_.callee or ""
            if cal_.endswith(("Iterator::any", "Iterator>::any")) and t_.args:
                from dataflow import flow_back as _fb
                if any("pieces" in f.field_path() for f in _fb(eb, d, t_.args[0], all_args=False)):
                    # is this any() the source of the captured dot flag?  (its closure tests starts_with)
                    for a in t_.args[1:]:
                        for o in origins(eb, d, a):
                            if o.kind == 'agg' and o.node.raw.get("ak") == "closure":
                                cb_ = prog.body(canon(o.node.raw["def"]))
                                if cb_ is not None and any((x.callee or "").endswith("starts_with") for _, x in cb_.calls()):
                                    any_over_pieces = t_.line
        if any_over_pieces:
            chk.fail("R8.3", eb.name, "dot-test-over-all-pieces",
                     "whether a path component asks for dot-files is decided with Iterator::any over all its pieces (line %s): a later piece that begins with a dot "
                     "(`*\".txt\"`, `*\"$ext\"`) makes the component match hidden files" % any_over_pieces)
        if carried:
            chk.fail("R8.3", eb.name, "dot-policy-carried-across-components",
                     "the dot-file flag `%s` captured by the filter closure is also defined outside the loop over path components (line %s): what an earlier "
                     "component allowed stays allowed for later ones — `.c*/*` lists `.cfg/.secret`" % carried)
        elif pol:
            chk.ok("R8.3", "dot-policy-per-component", "the flag captured by the filter closure is defined inside the component loop only", function=eb.name)
        if pol:
            chk.ok("R8.3", "dot-policy", "a filter closure tests the leading dot under require_dot_in_pattern_to_match_dot_files / pattern-starts-with-dot", function=eb.name)
        else:
            chk.fail("R8.3", eb.name, "dot-policy", "no Iterator::filter closure that applies the dot-file policy from require_dot_in_pattern_to_match_dot_files")

    # ---- R8.5 / R8.6 pattern operators of parameter expansion (shared with C06 R6.3 / R6.4) --------------------
    from rules import c06
    c06.removal_rules(prog, chk, R3="R8.5", R4="R8.6")
    pattern_from_tagged_pieces_rule(prog, chk)
    bracket_grammar_rules(prog, chk)


def pattern_from_tagged_pieces_rule(prog, chk):
    """R8.7: "backslash-escaped and quoted segments [are] literals". A quoted segment can only stay literal if the pattern is built from
    the *tagged* pieces of the expansion (basic_expand_pattern → From<Vec<PatternPiece>> / From<WordField>). A Pattern built from the flat
    string of an expansion (basic_expand_word…) has lost which characters were quoted: `[[ abc == "a*" ]]` matches."""
    from dataflow import flow_back
    chk.rule("R8.7", "no pattern used by [[ == ]], [[ != ]], case or the ${v#p} family is built from the flattened text of an expansion: "
                     "Pattern::from(&str|String) never receives the result of basic_expand_word / basic_expand_to_str")
    n = 0
    for b in prog.all_bodies({"brush_core"}):
        fn = owner(b.name)
        if not any(m in fn for m in ("::extendedtests::", "::interp::", "::expansion::")):
            continue
        d = None
        for bb, t in b.calls():
            cal = t.best_callee() or ""
            if not cal.startswith("<brush_core::patterns::Pattern as core::convert::From<"):
                continue
            n += 1
            src = cal[len("<brush_core::patterns::Pattern as core::convert::From<"):]
            if not src.startswith(("&str", "alloc::string::String", "&alloc::string::String", "&&str")):
                chk.ok("R8.7", "tagged:%s@%s" % (src.split(">")[0][-24:], short(fn)), "built from tagged pieces", function=fn)
                continue
            d = d or defs_of(b)
            vias = {v for f in flow_back(b, d, t.args[0], all_args=True) for v in f.via}
            flat = sorted(v for v in vias if v.rsplit("::", 1)[-1].startswith(("basic_expand_word", "basic_expand_to_str", "basic_expand_str", "full_expand")))
            if flat:
                chk.fail("R8.7", fn, "pattern-from-flattened-expansion",
                         "%s builds a Pattern from the flat string returned by %s (line %s): quoting information is gone, so quoted or escaped metacharacters "
                         "act as wildcards: a [[ abc == QUOTED-a* ]] test is true" % (fn, short(flat[0]), t.line))
            else:
                chk.ok("R8.7", "plain-text-pattern@%s" % short(fn), "pattern text does not come from a word expansion in this body", nontrivial=False, function=fn)
    chk.floor("R8.7", "Pattern constructions in the interpreter / tests / expansion", n, 4)


def bracket_grammar_rules(prog, chk):
    """R8.8 / R8.9 (grammar of brush-parser/src/pattern.rs, read from the source on every run).
    R8.8: a `]` that comes first in a bracket expression (after the optional `!`/`^`) is an ordinary member: between the optional
    inversion and the closing "]" the grammar accepts a literal "]" followed by further members (`[]a]`, `[!]]`, `[]]`).
    R8.9: a backslash-escaped letter or digit inside a bracket expression is not copied into the regular expression as `\\c` — there
    `\\d`, `\\w`, `\\s`, `\\a`, `\\b` … are classes or control characters, so `[\\d]` would match any digit instead of the letter d."""
    import os
    import peg
    from extract import REPO
    path = os.path.join(REPO, "brush-parser/src/pattern.rs")
    chk.rule("R8.8", "pattern grammar: a closing bracket directly after `[` / `[!` / `[^` is a literal member of the bracket expression")
    chk.rule("R8.9", "pattern grammar: an escaped letter or digit inside a bracket expression is emitted as itself, never as a regex escape `\\c`")
    try:
        G = peg.load(path).get("pattern_to_regex_translator")
    except OSError:
        G = None
    if not G or "bracket_expression" not in G:
        chk.fail("R8.8", "brush_parser::pattern", "grammar-missing", "pattern_to_regex_translator::bracket_expression not found in %s" % path, nontrivial=False)
        return

    def starts_with_close(rule, seen=()):
        """does some alternative of `rule` begin with the literal "]" and go on with more elements?"""
        if rule not in G or rule in seen:
            return False
        for alt in peg.split_alternatives(G[rule]):
            els = [e for e in peg.elements(alt) if e["kind"] != "action"]
            if els and els[0]["kind"] == "lit" and els[0]["text"] == "]" and not els[0]["prefix"]:
                return True
            if els and els[0]["kind"] == "class" and "']'" in els[0]["text"] and "!=" not in els[0]["text"] and not els[0]["prefix"]:
                return True
            if els and els[0]["kind"] == "call" and not els[0]["prefix"] and starts_with_close(els[0]["text"], seen + (rule,)):
                return True
        return False

    found = False
    n_alt = 0
    for alt in peg.split_alternatives(G["bracket_expression"]):
        els = [e for e in peg.elements(alt) if e["kind"] != "action"]
        if not (els and els[0]["kind"] == "lit" and els[0]["text"] == "["):
            continue
        n_alt += 1
        body = els[1:]
        # drop the optional inversion
        if body and ("invert" in body[0]["text"] or body[0].get("label") == "invert"):
            body = body[1:]
        if not body:
            continue
        first = body[0]
        if first["kind"] == "lit" and first["text"] == "]" and len(body) > 1:
            found = True            # "[" invert? "]"? members "]"
        elif first["kind"] == "group" and first["text"].lstrip().startswith('"]"') or first["kind"] == "group" and first["text"].lstrip().startswith("]"):
            found = True
        elif first["kind"] == "call" and starts_with_close(first["text"]):
            found = True
    chk.floor("R8.8", "bracket_expression alternatives", n_alt, 1)
    # the inversion marker is taken whatever follows it: a lookahead in the inversion rule (`['!'|'^'] !"]"`) turns `[!]a]` into the
    # one-member set `[!]` followed by the literal text `a]`
    inv_rules = set()
    for alt in peg.split_alternatives(G["bracket_expression"]):
        for e in peg.elements(alt):
            if e.get("label") == "invert" or "invert" in e["text"]:
                for t in e["toks"]:
                    if t.kind == 'ident' and t.text in G:
                        inv_rules.add(t.text)
    for r in sorted(inv_rules):
        for alt in peg.split_alternatives(G[r]):
            els = [e for e in peg.elements(alt) if e["kind"] != "action"]
            look = [e for e in els if e["prefix"]]
            if look or len(els) != 1:
                chk.fail("R8.8", "brush_parser::pattern::" + r, "inversion-depends-on-what-follows",
                         "the inversion marker of a bracket expression is recognised only under a condition on the next character (%s in rule %s): `[!]a]` / `[^]]` are no "
                         "longer negated sets with a literal `]` — `[[ x == [!]a] ]]` stops matching" % (" ".join(e["prefix"] + e["text"] for e in els), r))
                break
        else:
            chk.ok("R8.8", "inversion-unconditional:" + r, "the inversion marker is a single character class with no lookahead", function="brush_parser::pattern::" + r)
    if found:
        chk.ok("R8.8", "leading-close-bracket-is-a-member", "the member list may begin with a literal ']'", function="brush_parser::pattern::bracket_expression")
    else:
        chk.fail("R8.8", "brush_parser::pattern::bracket_expression", "leading-close-bracket-not-a-member",
                 "the bracket expression grammar does not accept `]` as its first member: `[]a]`, `[!]]` and `[]]` are not bracket expressions, so "
                 "`[[ ']' == []] ]]`, `case a in []a])` and `echo f[]a]` take the text literally (bash: `]` first is an ordinary member)")
    # R8.9
    rule = "single_char_bracket_member"
    if rule not in G:
        chk.fail("R8.9", "brush_parser::pattern", "grammar-missing", "rule %s not found" % rule, nontrivial=False)
        return
    guarded = False
    n_esc = 0
    for alt in peg.split_alternatives(G[rule]):
        els = peg.elements(alt)
        if not (els and els[0]["kind"] == "class" and els[0]["text"].replace(" ", "") in ("['\\\\']", "['\\']")):
            continue
        n_esc += 1
        cls = els[1]["text"] if len(els) > 1 and els[1]["kind"] == "class" else ""
        act = " ".join(e["text"] for e in els if e["kind"] == "action")
        verbatim = "\\{" in act.replace(" ", "") or "\\\\{" in act.replace(" ", "")
        if "alphanumeric" in cls or ("alphabetic" in cls and "digit" in cls):
            if not verbatim:
                guarded = True
            continue
        if verbatim and not guarded:
            chk.fail("R8.9", "brush_parser::pattern::" + rule, "escaped-alphanumeric-copied-as-regex-escape",
                     "an escaped character inside a bracket expression is copied into the regular expression as `\\c` for every c (line %s): `[\\d]` matches any digit "
                     "instead of the letter d, `[\\w]` any word character, `[\\a]` BEL" % (alt[0].line if alt else "?"))
            return
    chk.floor("R8.9", "escape alternatives in " + rule, n_esc, 1)
    chk.ok("R8.9", "escaped-alphanumerics-stand-for-themselves", "the verbatim `\\c` copy is reached only for non-alphanumeric c", function="brush_parser::pattern::" + rule)
