"""C18 — no leaks over long sessions: every internal stack push is popped on every path; no
descriptor / ownership escape hatch (DESIGN §3 C18)."""
from rulelib import (SHIPPED, Summaries, call_sites, callgraph, cfg_of, defs_of, owner, pair_escapes)
from dataflow import origins
from facts import canon

SHELL = "brush_core::shell::Shell"
CS = "brush_core::callstack::CallStack"
ENV = "brush_core::env::ShellEnvironment"

# acquire -> releases (role table from the repo; instances = every caller of the acquire)
PAIRS = [
    (CS + "::push_script", {CS + "::pop"}),
    (SHELL + "::enter_function", {SHELL + "::leave_function"}),
    (SHELL + "::enter_trap_handler", {SHELL + "::leave_trap_handler"}),
    (SHELL + "::start_command_string_mode", {SHELL + "::end_command_string_mode"}),
    (SHELL + "::start_interactive_session", {SHELL + "::end_interactive_session"}),
    (SHELL + "::acquire_trap_delivery_block", {SHELL + "::release_trap_delivery_block"}),
]

# wrapper pairs: the acquire half and the release half live in two functions that are themselves a pair
WRAPPERS = [
    # (wrapper acquire fn, raw acquires it must perform, wrapper release fn, raw releases it must perform)
    (SHELL + "::enter_function", [CS + "::push_function", ENV + "::push_scope"],
     SHELL + "::leave_function", [ENV + "::pop_scope", CS + "::pop"]),
    (SHELL + "::enter_trap_handler", [CS + "::push_trap_handler"], SHELL + "::leave_trap_handler", [CS + "::pop"]),
    (SHELL + "::start_command_string_mode", [CS + "::push_command_string"], SHELL + "::end_command_string_mode", [CS + "::pop"]),
    (SHELL + "::start_interactive_session", [CS + "::push_interactive_session"], SHELL + "::end_interactive_session", [CS + "::pop"]),
    (SHELL + "::acquire_trap_delivery_block", [CS + "::acquire_trap_delivery_block"],
     SHELL + "::release_trap_delivery_block", [CS + "::release_trap_delivery_block"]),
]

RAW_PUSHES = [CS + "::push_function", CS + "::push_script", CS + "::push_trap_handler", CS + "::push_command_string",
              CS + "::push_interactive_session", ENV + "::push_scope", CS + "::acquire_trap_delivery_block"]

LEAK_PRIMS = {
    "core::mem::forget", "core::mem::manually_drop::ManuallyDrop::new", "alloc::boxed::Box::leak",
    "std::os::fd::raw::IntoRawFd::into_raw_fd", "std::os::fd::raw::FromRawFd::from_raw_fd",
    "nix::unistd::dup", "nix::unistd::dup2", "nix::unistd::dup3", "libc::unix::dup", "libc::unix::dup2",
    "libc::unix::pipe", "libc::unix::open", "nix::unistd::pipe", "nix::fcntl::open",
    "alloc::rc::Rc::into_raw", "alloc::sync::Arc::into_raw", "alloc::boxed::Box::into_raw",
    "alloc::vec::Vec::leak", "alloc::string::String::leak",
}
# reviewed sites: (owner function, primitive) -> reason
LEAK_ALLOWED = {
    ("brush_interactive::reedline::input_backend::ReedlineInputBackend::read_line", "core::mem::forget"):
        "reedline editor is deliberately forgotten at teardown to avoid its Drop touching the terminal; once per session",
    ("<brush_interactive::reedline::input_backend::ReedlineInputBackend as core::ops::drop::Drop>::drop", "core::mem::forget"):
        "reedline editor is deliberately forgotten at teardown; once per session",
}


def pair_findings(prog, summ):
    """every call site of an acquire of PAIRS with its escaping exits: yields (fn, acquire, releases, body, term, escapes)"""
    for acq, rels in PAIRS:
        for b, bb, t in prog.callers_of(acq, crates=SHIPPED):
            rel_bbs = [x for x, _ in call_sites(b, rels)]
            yield owner(b.name), acq, rels, b, t, pair_escapes(b, bb, rel_bbs, summ)


def _ok_return_blocks(body, c):
    """blocks where the function commits to a successful return: `_0 = Ok(..)` for Result-returning
    functions, the Return blocks otherwise"""
    d = defs_of(body)
    oks = []
    result_fn = False
    for kind, bb, idx, node in d.of(0):
        if bb not in c.reach or body.blocks[bb].cleanup:
            continue
        if kind == 'assign' and node.rv.kind == 'agg' and node.rv.adt == "core::result::Result":
            result_fn = True
            if node.rv.variant == "Ok":
                oks.append(bb)
        elif kind == 'call' and node.callee == "core::ops::try_trait::FromResidual::from_residual":
            result_fn = True
    if result_fn:
        return oks
    return c.return_blocks()


def run(prog, chk):
    chk.explanation = (
        "PAIR rule on MIR CFGs: for every call site of an internal-stack acquire (script/function/trap-handler/command-string/"
        "interactive-session frames, trap-delivery block, environment scopes, the command ScopeGuard) every non-unwind, "
        "non-cancellation path to Return passes the paired release; wrapper pairs are checked half by half; WHO rule on "
        "leak primitives (mem::forget, ManuallyDrop, Box::leak, raw fd conversions, dup/pipe/open syscalls); TYPE rule on "
        "OpenFile's fields. Not decided: unreaped children, behaviour equality of the k-th iteration.")
    chk.assumptions = ["rustc MIR; callee resolution", "cancellation (dropping a future mid-await) is not a normal exit"]
    summ = Summaries(prog)

    # ---- R18.1 PAIR -----------------------------------------------------------------------------
    chk.rule("R18.1", "every call site of an acquire has its release on every normal path to Return in the same body")
    n_inst = 0
    for fn, acq, rels, b, t, esc in pair_findings(prog, summ):
        n_inst += 1
        for key, msg, path in esc:
            chk.fail("R18.1", fn, "%s|%s" % (acq.rsplit("::", 1)[-1], key),
                     "%s … %s: %s" % (acq, "/".join(sorted(rels)), msg), detail={"path_blocks": path})
        if not esc:
            chk.ok("R18.1", "%s@%s" % (acq.rsplit("::", 1)[-1], fn),
                   "release %s post-dominates the acquire at %s (normal paths)" % ("/".join(r.rsplit("::", 1)[-1] for r in rels), b.loc(t.line)), function=fn)
    chk.floor("R18.1", "acquire call sites", n_inst, 6)

    # wrapper halves
    chk.rule("R18.1w", "wrapper pairs: the acquire half performs all raw pushes with no error exit after the first one; the "
                       "release half performs all raw pops on every path that returns Ok")
    for wa, raws_a, wr, raws_r in WRAPPERS:
        ba = prog.impl_body(wa)
        br = prog.impl_body(wr)
        if not (chk.anchor("R18.1w", wa, ba) and chk.anchor("R18.1w", wr, br)):
            continue
        ca = cfg_of(ba)
        rets = ca.return_blocks()
        first = None
        okay = True
        for raw in raws_a:
            s = call_sites(ba, {raw})
            if not s:
                chk.fail("R18.1w", wa, "missing:" + raw, "%s no longer calls %s" % (wa, raw))
                okay = False
                continue
            if first is None:
                first = s[0][0]
        if okay and first is not None:
            # after the first raw push: all remaining pushes on every path, and no error exit
            later = [call_sites(ba, {r})[0][0] for r in raws_a[1:]]
            bad = None
            for l in later:
                p = ca.escapes(first, [l], rets, after=True)
                if p is not None:
                    bad = p
            errs = [e for e in ca.error_exit_blocks() if e in ca.reachable_after(first)]
            if bad is not None:
                chk.fail("R18.1w", wa, "partial-acquire", "a path after the first push skips a later push: %s" % bad)
            elif errs:
                chk.fail("R18.1w", wa, "error-after-push", "an error exit is reachable after the first push (line %s): half-acquired state"
                         % ba.blocks[errs[0]].term.line)
            else:
                chk.ok("R18.1w", "acquire-half:" + wa, "pushes %s atomically" % [r.rsplit('::', 1)[-1] for r in raws_a], function=wa)
        cr = cfg_of(br)
        rets_r = cr.return_blocks()
        for raw in raws_r:
            s = [x for x, _ in call_sites(br, {raw})]
            if not s:
                chk.fail("R18.1w", wr, "missing:" + raw, "%s no longer calls %s" % (wr, raw))
                continue
            # every path that returns Ok (or, for infallible halves, returns at all) has performed the pop
            goals = _ok_return_blocks(br, cr)
            p = cr.escapes(0, s, goals, after=False)
            if p is not None:
                key = "skips:%s" % raw.rsplit("::", 1)[-1]
                chk.fail("R18.1w", wr, key, "%s: a path reaches a successful return without %s: blocks %s" % (wr, raw, p), detail={"path_blocks": p})
            else:
                chk.ok("R18.1w", "release-half:%s:%s" % (wr, raw.rsplit("::", 1)[-1]), "every successfully returning path performs the pop", function=wr)

    # raw pushes only inside wrappers / the guard
    chk.rule("R18.1r", "raw push primitives are called only by their wrapper halves, ScopeGuard::new and source_file")
    allowed_raw = {wa for wa, _, _, _ in WRAPPERS} | {"brush_core::env::ScopeGuard::new", SHELL + "::source_file"}
    nraw = 0
    for raw in RAW_PUSHES:
        for b, bb, t in prog.callers_of(raw, crates=SHIPPED):
            fn = owner(b.name)
            nraw += 1
            if fn in allowed_raw or fn.startswith(CS + "::") or fn.startswith(ENV + "::"):
                chk.ok("R18.1r", "%s<-%s" % (raw.rsplit("::", 1)[-1], fn), "wrapper", nontrivial=False, function=fn)
            else:
                chk.fail("R18.1r", fn, "raw-push:" + raw.rsplit("::", 1)[-1],
                         "%s calls %s directly at %s: an unpaired frame/scope push outside the reviewed wrappers" % (fn, raw, b.loc(t.line)))
    chk.floor("R18.1r", "raw push call sites", nraw, 7)

    # ---- command ScopeGuard (shared with C09 R9.2) ---------------------------------------------------
    from rules import c09
    c09.scope_guard_rule(prog, chk, "R18.1g")

    # ---- R18.2 leak primitives ------------------------------------------------------------------
    chk.rule("R18.2", "leak primitives (forget/ManuallyDrop/leak/raw-fd conversions/dup/pipe/open syscalls) occur only at reviewed sites")
    n = 0
    for b in prog.all_bodies(SHIPPED):
        for bb, t in b.calls():
            c = t.best_callee()
            cands = {t.callee, c}
            hit = cands & LEAK_PRIMS
            if not hit or t.exp and ("derive" in t.exp):
                continue
            prim = sorted(hit)[0]
            fn = owner(b.name)
            n += 1
            if (fn, prim) in LEAK_ALLOWED:
                chk.ok("R18.2", "%s@%s" % (prim, fn), LEAK_ALLOWED[(fn, prim)], nontrivial=False, function=fn)
            else:
                chk.fail("R18.2", fn, prim, "%s calls %s at %s: ownership/descriptor escape hatch outside the reviewed table" % (fn, prim, b.loc(t.line)))
    chk.note("leak_primitive_sites", n)
    chk.floor("R18.2", "leak primitive sites (positive control: reedline teardown forget)", n, 1)

    # ---- R18.3 OpenFile holds descriptors only in RAII owners ------------------------------------------
    chk.rule("R18.3", "OpenFile variants hold only RAII owners (std handles, Arc<File|PipeReader|PipeWriter>, Box<dyn Stream>)")
    adt = prog.adts.get("brush_core::openfiles::OpenFile")
    if chk.anchor("R18.3", "brush_core::openfiles::OpenFile", adt):
        allowed = {"std::io::stdio::Stdin", "std::io::stdio::Stdout", "std::io::stdio::Stderr",
                   "alloc::sync::Arc<std::fs::File>", "alloc::sync::Arc<std::io::pipe::PipeReader>",
                   "alloc::sync::Arc<std::io::pipe::PipeWriter>", "alloc::boxed::Box<(dyn brush_core::openfiles::Stream + 'static)>"}
        nv = 0
        for v in adt["variants"]:
            for f in v["fields"]:
                nv += 1
                if f["ty"] in allowed:
                    chk.ok("R18.3", "OpenFile::%s" % v["name"], f["ty"], nontrivial=False)
                else:
                    chk.fail("R18.3", "brush_core::openfiles::OpenFile", "variant:%s" % v["name"],
                             "OpenFile::%s holds %s which is not a reviewed RAII owner" % (v["name"], f["ty"]))
        chk.floor("R18.3", "OpenFile fields", nv, 7)
    persistent_descriptor_release_rule(prog, chk)


PERSISTENT_ADD = "brush_core::openfiles::OpenFiles::add"
PERSISTENT_REMOVE = ("brush_core::openfiles::OpenFiles::remove_fd",)
ADD_ONCE_PER_PROCESS = {
    "brush_shell::entry::enable_xtrace_to_file": "start-up: one descriptor for the lifetime of the process",
}
JOB_COMPLETION_ENTRY_POINTS = ("brush_core::jobs::JobManager::poll", "brush_core::jobs::JobManager::sweep_completed_jobs", "brush_core::jobs::JobManager::wait_all",
                               "brush_core::jobs::Job::wait", "brush_core::shell::Shell::check_for_completed_jobs")


def persistent_descriptor_release_rule(prog, chk):
    """R18.4: a command that allocates descriptors in the shell's *persistent* table (OpenFiles::add through open_files_mut — today only
    `coproc`) must have a release: some function that removes descriptors from that table and is reachable from the allocating function
    itself or from the places where the job it created is reaped. Otherwise every execution of the command leaves its descriptors
    behind and the k-th iteration runs with 2k more open descriptors than the first."""
    chk.rule("R18.4", "descriptors allocated in the persistent table per command (coproc) are released when the coprocess ends or is replaced")
    cg = callgraph(prog)
    adders = {}
    for b, bb, t in prog.callers_of(PERSISTENT_ADD, crates=SHIPPED):
        adders.setdefault(owner(b.name), []).append((b, t))
    chk.floor("R18.4", "functions allocating persistent descriptors", len(adders), 1)
    removers = {owner(b.name) for nm in PERSISTENT_REMOVE for b, bb, t in prog.callers_of(nm, crates=SHIPPED)}
    for fn, sites in sorted(adders.items()):
        if fn in ADD_ONCE_PER_PROCESS:
            chk.ok("R18.4", "once:" + fn.rsplit("::", 1)[-1], ADD_ONCE_PER_PROCESS[fn], nontrivial=False, function=fn)
            continue
        roots = {sites[0][0].name, fn} | set(JOB_COMPLETION_ENTRY_POINTS)
        reach = cg.reachable_from({r for r in roots if prog.body(r) is not None or r in cg.edges})
        reach_owners = {owner(x) for x in reach}
        rel = sorted(r for r in removers if r in reach_owners and r != "brush_core::interp::setup_redirect")
        if rel:
            chk.ok("R18.4", "released:" + fn.rsplit("::", 1)[-1], "release through %s" % rel[0], function=fn)
        else:
            chk.fail("R18.4", fn, "persistent-descriptors-never-released",
                     "%s allocates %d descriptors in the shell's persistent table (line %s) and nothing reachable from it or from the job-reaping functions removes them: "
                     "`for i in $(seq 50); do coproc { :; }; wait; done` ends with 200 more open descriptors than it started with"
                     % (fn, len(sites), sites[0][1].line))
