"""C10 — redirections (DESIGN §3 C10)."""
from rulelib import SHIPPED, call_sites, cfg_of, defs_of, owner, short
from dataflow import base_local, borrow_root, field_stores, flow_back, origins
from facts import canon

SETUP = "brush_core::interp::setup_redirect"
SHELL = "brush_core::shell::Shell"
EP = "brush_core::interp::ExecutionParameters"

PERSISTENT_WRITERS = {SHELL + "::open_files_mut", SHELL + "::replace_open_files",
                      "brush_core::shell::state::ShellState::open_files_mut"}
PERSISTENT_ALLOWED = {
    "<brush_builtins::exec::ExecCommand as brush_core::builtins::Command>::execute": "`exec` with no command: redirections persist by definition",
    "<brush_parser::ast::CoprocessCommand as brush_core::interp::Execute>::execute": "coprocess: allocates the two descriptors the parent keeps (COPROC[0], COPROC[1])",
    "brush_shell::entry::enable_xtrace_to_file": "start-up: xtrace output file descriptor",
    SHELL + "::new": "shell construction: descriptors passed by the embedder",
}


PATH_PROBES = {"std::path::Path::" + m for m in ("is_file", "exists", "try_exists", "is_dir", "is_symlink", "metadata", "symlink_metadata",
                                                    "read_dir", "read_link", "canonicalize")}
FS_FREE_FNS = {"std::fs::" + m for m in ("metadata", "symlink_metadata", "read", "read_to_string", "write", "remove_file", "read_dir", "create_dir", "create_dir_all",
               "rename", "copy", "canonicalize", "exists", "read_link", "remove_dir", "hard_link", "set_permissions")}


def run(prog, chk):
    chk.explanation = (
        "Static decision of the descriptor-table discipline: every setup_redirect call mutates an *owned* per-command "
        "ExecutionParameters (never a caller's &mut that outlives the command) and never the shell's persistent table; the "
        "persistent table has a closed, reviewed set of writers; the noclobber branch cannot truncate and uses create_new for existing "
        "regular files; the here-document writer end is dropped after write_all on every successful path. Not decided: left-to-right "
        "descriptor semantics, file contents, here-document tokenizer behaviour.")
    chk.assumptions = ["rustc MIR", "ExecutionParameters dies with the command when owned by value (Rust ownership)"]

    # ---- R10.1 ----------------------------------------------------------------------------------------
    chk.rule("R10.1", "every setup_redirect call passes a &mut borrow of a by-value ExecutionParameters owned by the caller; setup_redirect "
                      "does not touch the shell's persistent table")
    sites = prog.callers_of(SETUP, crates=SHIPPED)
    chk.floor("R10.1", "setup_redirect call sites", len(sites), 4)
    for b, bb, t in sites:
        fn = owner(b.name)
        d = defs_of(b)
        root, net, fields = borrow_root(b, d, t.args[1])
        rty = canon(b.local_ty(root)) if root is not None else "?"
        if net is None or net >= 0 or rty.startswith("&"):
            chk.fail("R10.1", fn, "redirect-into-borrowed-params",
                     "%s applies a redirect to parameters it only borrows (root _%s: %s, path %s) at %s: the redirection outlives the command"
                     % (fn, root, rty[:60], ".".join(fields), b.loc(t.line)))
        else:
            chk.ok("R10.1", "owned-params@%s:%s" % (fn, ".".join(fields) or "local"),
                   "&mut of frame-owned storage (root _%s%s, no dereference of a caller reference)" % (root, "." + ".".join(fields) if fields else ""), function=fn)
    sb = prog.impl_body(SETUP)
    if chk.anchor("R10.1", SETUP, sb):
        bad = [tt.best_callee() for _, tt in sb.calls() if tt.best_callee() in PERSISTENT_WRITERS or tt.callee in PERSISTENT_WRITERS]
        st = field_stores(sb, "shell::Shell", "open_files")
        if bad or st:
            chk.fail("R10.1", SETUP, "persistent-write-in-setup_redirect", "setup_redirect writes the shell's persistent descriptor table (%s)" % (bad or "field store"))
        else:
            chk.ok("R10.1", "setup_redirect-local-only", "no open_files_mut / replace_open_files / Shell.open_files store in setup_redirect", function=SETUP)
    for helper in ("brush_core::interp::setup_redirect_output_and_error_to", "brush_core::interp::setup_process_substitution"):
        hb = prog.impl_body(helper)
        if hb is not None:
            bad = [tt.best_callee() for _, tt in hb.calls() if tt.best_callee() in PERSISTENT_WRITERS]
            if bad:
                chk.fail("R10.1", helper, "persistent-write-in-helper", "%s writes the persistent table" % helper)
            else:
                chk.ok("R10.1", "helper-local-only:" + helper.rsplit("::", 1)[-1], "no persistent-table writer called", function=helper)

    # ---- R10.2 -----------------------------------------------------------------------------------------
    chk.rule("R10.2", "callers of Shell::open_files_mut / replace_open_files are the reviewed persistent writers only")
    ws = prog.callers_of(*PERSISTENT_WRITERS, crates=SHIPPED)
    chk.floor("R10.2", "persistent-table writer call sites", len(ws), 3)
    for b, bb, t in ws:
        fn = owner(b.name)
        if fn in PERSISTENT_ALLOWED:
            chk.ok("R10.2", "writer:" + fn, PERSISTENT_ALLOWED[fn], nontrivial=False, function=fn)
        elif fn == SHELL + "::open_files_mut":
            chk.ok("R10.2", "trait-forward:" + fn, "ShellState trait forwarding", nontrivial=False, function=fn)
        else:
            chk.fail("R10.2", fn, "persistent-writer:" + t.best_callee().rsplit("::", 1)[-1],
                     "%s modifies the shell's persistent descriptor table at %s: the change survives the command" % (fn, b.loc(t.line)))
    # direct stores to Shell.open_files
    for b in prog.all_bodies({"brush_core"}):
        for sbb, si, s in field_stores(b, "shell::Shell", "open_files"):
            fn = owner(b.name)
            if fn in (SHELL + "::replace_open_files", SHELL + "::new", "<brush_core::shell::Shell as core::clone::Clone>::clone"):
                chk.ok("R10.2", "store:" + fn, "reviewed store", nontrivial=False, function=fn)
            else:
                chk.fail("R10.2", fn, "open_files-store", "%s stores Shell.open_files directly" % fn)

    # ---- R10.3 noclobber -------------------------------------------------------------------------------
    chk.rule("R10.3", "Write redirect: on the noclobber-enabled side no OpenOptions::truncate is reachable before the join, and create_new "
                      "is used under is_file()")
    if sb is not None:
        c = cfg_of(sb)
        d = defs_of(sb)
        found = False
        for bl in sb.blocks:
            t = bl.term
            if t.kind != "switch" or bl.idx not in c.reach:
                continue
            if not any("disallow_overwriting_regular_files_via_output_redirection" in o.field_path() for o in origins(sb, d, t.discr)):
                continue
            found = True
            tsucc = t.otherwise
            fsucc = [tg for v, tg in t.targets if v == 0]
            T = c.reachable_from(tsucc)
            F = c.reachable_from(fsucc[0]) if fsucc else set()
            excl = T - F
            trunc = [x for x, tt in call_sites(sb, {"std::fs::OpenOptions::truncate"}) if x in excl]
            cn = [x for x, tt in call_sites(sb, {"std::fs::OpenOptions::create_new"}) if x in excl]
            if trunc:
                chk.fail("R10.3", SETUP, "truncate-under-noclobber", "OpenOptions::truncate is reachable on the noclobber side (line %s): `>` can overwrite an existing file"
                         % sb.blocks[trunc[0]].term.line)
            else:
                chk.ok("R10.3", "no-truncate-under-noclobber", "no truncate call in the %d blocks exclusive to the noclobber side" % len(excl), function=SETUP)
            if not cn:
                chk.fail("R10.3", SETUP, "create_new-missing", "the noclobber side no longer uses create_new for existing regular files")
            else:
                guarded = False
                for g in sb.blocks:
                    gt = g.term
                    if gt.kind == "switch" and g.idx in excl and c.dominates(g.idx, cn[0]):
                        if any(o.kind == 'call' and (o.node.best_callee() or "").endswith("Path::is_file") for o in origins(sb, d, gt.discr, through_ops=True)):
                            guarded = True
                if guarded:
                    chk.ok("R10.3", "create_new-under-is_file", "create_new(true) is control dependent on is_file()", function=SETUP)
                else:
                    chk.fail("R10.3", SETUP, "create_new-unguarded", "create_new is not under the is_file() test")
            # the other side truncates (sanity / positive control)
            tr2 = [x for x, tt in call_sites(sb, {"std::fs::OpenOptions::truncate"}) if x in (F - T)]
            if tr2:
                chk.ok("R10.3", "truncate-on-default-side", "positive control: truncate found on the non-noclobber side", nontrivial=False, function=SETUP)
            else:
                chk.fail("R10.3", SETUP, "control-no-truncate", "positive control failed: no truncate on the non-noclobber side (rule blind?)", nontrivial=False)
        if not found:
            chk.fail("R10.3", SETUP, "noclobber-branch-missing", "no branch on disallow_overwriting_regular_files_via_output_redirection in setup_redirect")

    # ---- R10.5 the probed file is the opened file ------------------------------------------------------------
    # brush never chdir()s: `cd` only updates Shell::working_dir, so a relative path handed to the OS resolves against the
    # directory the process was started in. Every path-taking filesystem call in the redirect set-up must therefore receive a
    # path that went through Shell::absolute_path (or Shell::open_file, which applies it) — otherwise the noclobber test looks
    # at a different file from the one that is then opened.
    chk.rule("R10.5", "every path handed to a filesystem probe/open in the redirect set-up functions is resolved against the shell's "
                      "working directory (flows through Shell::absolute_path) — the noclobber test inspects the file that is opened")
    RESOLVERS = (SHELL + "::absolute_path", SHELL + "::working_dir")
    nprobe = 0
    for name in (SETUP, "brush_core::interp::setup_redirect_output_and_error_to", "brush_core::interp::setup_process_substitution",
                 SHELL + "::open_file"):
        fb = prog.impl_body(name)
        if not chk.anchor("R10.5", name, fb):
            continue
        dd = defs_of(fb)
        for bbi, t in fb.calls():
            cal = t.best_callee() or ""
            if cal in PATH_PROBES:
                op = t.args[0]
            elif cal == "std::fs::OpenOptions::open":
                op = t.args[1]
            elif cal in FS_FREE_FNS:
                op = t.args[0]
            else:
                continue
            nprobe += 1
            flows = flow_back(fb, dd, op)
            vias = set()
            for f in flows:
                vias |= set(f.via)
            consts = flows and all(f.kind == 'const' for f in flows)
            what = cal.rsplit("::", 1)[-1]
            if any(v in RESOLVERS for v in vias):
                chk.ok("R10.5", "resolved:%s@%s" % (what, name.rsplit("::", 1)[-1]), "path operand flows through Shell::absolute_path", function=name)
            elif consts:
                chk.ok("R10.5", "constant-path:%s@%s" % (what, name.rsplit("::", 1)[-1]), "constant absolute path", nontrivial=False, function=name)
            else:
                chk.fail("R10.5", name, "unresolved-path:" + what,
                         "%s calls %s at %s on a path that was not resolved against the shell's working directory (no Shell::absolute_path on its "
                         "data flow): after `cd` it names a file relative to the directory the process was started in, not the file the "
                         "redirection opens" % (name, cal, fb.loc(t.line)))
    chk.floor("R10.5", "filesystem probe/open sites in redirect set-up", nprobe, 2)

    # ---- R10.4 here-doc writer dropped ---------------------------------------------------------------------
    chk.rule("R10.4", "setup_open_file_with_contents: the pipe writer is dropped after write_all on every path to Ok")
    hb = prog.impl_body("brush_core::interp::setup_open_file_with_contents")
    if chk.anchor("R10.4", "brush_core::interp::setup_open_file_with_contents", hb):
        c = cfg_of(hb)
        w = call_sites(hb, {"std::io::Write::write_all"})
        drops = []
        for bl in hb.blocks:
            if bl.cleanup:
                continue
            t = bl.term
            if t.kind == "drop" and "PipeWriter" in t.ty:
                drops.append(bl.idx)
            if t.kind == "call" and t.callee == "core::mem::drop" and t.args and t.args[0].place is not None and "PipeWriter" in hb.local_ty(t.args[0].place.local):
                drops.append(bl.idx)
        if not w:
            chk.fail("R10.4", hb.name, "write_all-missing", "write_all not found")
        else:
            # Ok-return blocks
            oks = [bl.idx for bl in hb.blocks for s in bl.stmts if s.kind == 'a' and s.place.is_local() and s.place.local == 0
                   and s.rv.kind == 'agg' and s.rv.variant == "Ok"]
            p = c.escapes(w[0][0], drops, oks, after=True)
            if p is not None:
                chk.fail("R10.4", hb.name, "writer-not-dropped", "a path from write_all to Ok(reader) keeps the writer open: the reader never sees EOF (%s)" % p)
            else:
                chk.ok("R10.4", "writer-dropped", "writer dropped on every path from write_all to Ok", function=hb.name)
    here_queue_rule(prog, chk)
    redirect_failure_contained_rule(prog, chk)


HERE_QUEUE_FIELD = "current_here_tags"
BACK_ACCESS = ("[T]::last", "[T]::last_mut", "alloc::vec::Vec::pop", "[T]::split_last", "[T]::split_last_mut")
FRONT_ACCESS = ("[T]::first", "[T]::first_mut", "alloc::vec::Vec::remove", "core::ops::index::Index::index", "core::ops::index::IndexMut::index_mut")
PASSIVE = ("core::option::Option::unwrap", "core::option::Option::expect", "core::ops::deref::Deref::deref", "core::ops::deref::DerefMut::deref_mut",
           "core::option::Option::as_mut", "core::option::Option::as_ref")


def here_queue_rule(prog, chk):
    """R10.6: pending here-documents form a FIFO: tags are appended when `<<TAG` is seen and the document being read is the one at
    the FRONT (it is dequeued with remove(0) when its end tag is found). Everything that governs the body in progress — tab
    stripping, the end tag, whether the delimiter was quoted — must be read from the front element. An access to the BACK of the
    queue (last / last_mut / pop) is legitimate only in the declaration phase, to attach the tokens that follow the newest `<<TAG`."""
    from dataflow import flow_back, forward_taint
    chk.rule("R10.6", "the here-document queue is read at its front for the document in progress (remove_tabs / tag / quoting); back accesses "
                      "only append pending tokens to the most recently declared tag")
    nfront = nback = 0
    for b in prog.all_bodies({"brush_parser"}):
        fn = owner(b.name)
        if "tokenizer" not in fn:
            continue
        d = defs_of(b)
        for bb, t in b.calls():
            cal = t.callee or ""
            bc = t.best_callee() or cal
            if not t.args:
                continue
            recv = flow_back(b, d, t.args[0])
            if not any(HERE_QUEUE_FIELD in f.field_path() for f in recv):
                continue
            if cal in FRONT_ACCESS or bc in FRONT_ACCESS:
                # positional: the index must be the constant 0
                if len(t.args) > 1:
                    iv = [g for g in flow_back(b, d, t.args[1]) if g.kind == 'const']
                    if iv and all(g.node.value == 0 for g in iv):
                        nfront += 1
                        chk.ok("R10.6", "front:%s@%s" % (short(bc), short(fn)), "front element of the queue", function=fn)
                    else:
                        chk.fail("R10.6", fn, "here-queue-indexed-off-front", "%s accesses current_here_tags at a position other than the constant 0 (line %s)" % (fn, t.line))
                else:
                    nfront += 1
                    chk.ok("R10.6", "front:%s@%s" % (short(bc), short(fn)), "front element of the queue", function=fn)
            elif cal in BACK_ACCESS or bc in BACK_ACCESS:
                nback += 1
                tl = forward_taint(b, {t.dest.local}) if t.dest is not None else set()
                fields = set()
                escapes = []
                for bl in b.blocks:
                    for st in bl.stmts:
                        if st.kind != 'a':
                            continue
                        pls = [st.place] + ([st.rv.place] if st.rv.place is not None else []) + [o.place for o in st.rv.ops if o.place is not None]
                        for pl in pls:
                            if pl.local in tl:
                                for pr in pl.proj:
                                    if pr[0] == 'f' and "HereTag" in canon(pr[2]):
                                        fields.add(pr[3])
                    tt = bl.term
                    if tt.kind == "call" and any(a.place is not None and a.place.local in tl for a in tt.args):
                        c2 = tt.best_callee() or tt.callee or ""
                        if c2 not in PASSIVE and not c2.endswith(("Vec::push", "Try>::branch", "Option::is_some", "Option::is_none")) and tt is not t:
                            escapes.append(c2)
                other = fields - {"pending_tokens_after"}
                if other or escapes:
                    chk.fail("R10.6", fn, "here-queue-read-at-back:" + (sorted(other)[0] if other else short(escapes[0])),
                             "%s takes the *last* pending here-document (%s at line %s) and %s: the document being read is the first one in the queue, so with two "
                             "here-documents on one line (`cmd <<A <<-B`) the wrong document's form decides tab stripping / termination"
                             % (fn, short(bc), t.line, ("reads " + ", ".join(sorted(other))) if other else ("passes it to " + short(escapes[0]))))
                else:
                    chk.ok("R10.6", "back-appends-pending@%s" % short(fn), "back access only appends pending tokens to the newest tag", function=fn)
    chk.floor("R10.6", "front accesses to the here-document queue", nfront, 2)
    chk.note("here_queue_back_accesses", nback)


def redirect_failure_contained_rule(prog, chk):
    """R10.7: a redirection that cannot be set up fails the command it is attached to (status 1, diagnostic) and the enclosing list goes
    on. In the command executors (simple and compound commands) the error of setup_redirect is handled on the spot — it does not feed a
    `?` exit, which would abandon the rest of the list the command belongs to."""
    from dataflow import forward_taint
    chk.rule("R10.7", "the command executors handle a setup_redirect error locally (diagnostic + general error result); its error never feeds their own `?` exit")
    n = 0
    for fn in ("<brush_parser::ast::Command as brush_core::interp::ExecuteInPipeline>::execute_in_pipeline",
               "<brush_parser::ast::SimpleCommand as brush_core::interp::ExecuteInPipeline>::execute_in_pipeline"):
        b = prog.impl_body(fn)
        if not chk.anchor("R10.7", fn, b):
            continue
        c = cfg_of(b)
        sites = [(bb, t) for bb, t in b.calls() if (t.best_callee() or "") == SETUP and bb in c.reach]
        if not sites:
            continue
        for bb, t in sites:
            n += 1
            from dataflow import flow_back
            leaks = []
            for xb, xt in b.calls():
                if (xt.best_callee() or xt.callee or "").endswith("Try>::branch") and xb in c.reachable_after(bb) and xt.args:
                    vias = {v for f in flow_back(b, defs_of(b), xt.args[0], all_args=False) for v in f.via}
                    if SETUP in vias and not any(("fmt" in v or "write" in v.lower()) for v in vias):
                        leaks.append(xb)
            short_fn = fn.split(" as ")[0].lstrip("<").rsplit("::", 1)[-1]
            if leaks:
                chk.fail("R10.7", fn, "redirect-error-propagated",
                         "%s propagates the error of setup_redirect with `?` (line %s): a redirection that cannot be opened on this kind of command abandons the rest "
                         "of the enclosing list — in `for i in 1 2; do { :; } > /nonexistent/y; echo $i; done; echo end` nothing after the failing command runs"
                         % (fn, b.blocks[leaks[0]].term.line))
            else:
                chk.ok("R10.7", "redirect-error-handled@%s:%d" % (short_fn, n), "the error is turned into a result in place", function=fn)
    chk.floor("R10.7", "setup_redirect calls in the command executors", n, 2)
