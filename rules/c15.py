"""C15 — memoisation is transparent (DESIGN §3 C15): every memo key covers every input; key types
compare structurally; memoised computations read no ambient state."""
import re

from rulelib import SHIPPED, callgraph, cfg_of, defs_of, owner
from dataflow import flow_back
from facts import canon

# statics a memoised computation may touch: the caches themselves and immutable tables
def _allowed_static(name):
    base = name.rsplit("::", 1)[-1]
    return "CALLSITE" in name or base in ("META", "__CALLSITE", "FIELDS") or name.endswith("::KEYWORDS") or name.endswith("::SH_MODE_KEYWORDS")


AMBIENT_CALLS = ("std::env::var", "std::env::var_os", "std::env::vars", "std::env::current_dir", "std::time::SystemTime::now",
                 "std::time::Instant::now", "std::fs::", "rand::")


def _params_reaching(prog, b, key_op):
    """set of parameter names of the *memoised function* that flow into key_op. If b is a closure, flows that
    end at a captured variable are continued in the parent body."""
    d = defs_of(b)
    reached = set()
    flows = flow_back(b, d, key_op, all_args=True)
    for f in flows:
        if f.kind == 'arg':
            nm = b.local_name(f.node)
            if b.kind in ("closure", "coroutine") and f.node == 1:
                # captured variable: field index of the closure environment
                idx = next((p[1] for p in f.path if p[0] == 'f' and str(p[2]).startswith("(closure)")), None)
                if idx is not None and b.parent:
                    pb = prog.body(b.parent)
                    if pb is not None:
                        for bl in pb.blocks:
                            for s in bl.stmts:
                                if s.kind == 'a' and s.rv.kind == 'agg' and canon(s.rv.raw.get("def", "")) == b.name and idx < len(s.rv.ops):
                                    reached |= _params_reaching(prog, pb, s.rv.ops[idx])
            elif nm:
                reached.add(nm)
    return reached


def _memo_root(prog, b):
    x = b
    while x.kind in ("closure", "coroutine") and x.parent and prog.body(x.parent) is not None:
        x = prog.body(x.parent)
    return x


def run(prog, chk):
    chk.explanation = (
        "TAINT: for every body that calls Cached::cache_get (the #[cached] wrappers and the hand-written regex cache) each parameter "
        "of the memoised function flows into the key passed to cache_get and cache_set. TYPE: every workspace type inside a key has "
        "#[derive]d Hash/PartialEq/Eq. Purity: the memoised computations (call-graph closure inside the workspace) reference no "
        "mutable static, thread-local or ambient-state API other than the cache itself and tracing call-sites. "
        "Not decided: equality of outputs across delivery modes, $LINENO, the complete/incomplete classification.")
    chk.assumptions = ["rustc MIR", "the cached crate's SizedCache compares keys with Eq + Hash"]
    chk.rule("R15.1", "every parameter of a memoised function reaches the key operand of cache_get and of cache_set")
    memo = []
    for b in prog.all_bodies(SHIPPED):
        gets = [(bb, t) for bb, t in b.calls() if (t.callee or "").endswith("Cached::cache_get")]
        sets = []
        if gets:
            root = _memo_root(prog, b)
            # cache_set may live in a sibling closure of the same root
            for b2 in prog.all_bodies(SHIPPED):
                if _memo_root(prog, b2) is root:
                    sets += [(b2, bb, t) for bb, t in b2.calls() if (t.callee or "").endswith(("Cached::cache_set", "Cached::set"))]
            memo.append((root, b, gets, sets))
    chk.floor("R15.1", "memoised functions", len(memo), 6)
    nparams = 0
    key_types = set()
    for root, b, gets, sets in memo:
        fn = owner(root.name)
        params = [root.local_name(i) for i in range(1, root.argc + 1)]
        params = [p for p in params if p]
        for bb, t in gets:
            reached = _params_reaching(prog, b, t.args[1])
            key_types.add(b.local_ty(t.args[1].place.local) if t.args[1].place is not None else "")
            for p in params:
                nparams += 1
                if p in reached:
                    chk.ok("R15.1", "get:%s:%s" % (fn, p), "parameter `%s` is part of the lookup key" % p, function=fn)
                else:
                    chk.fail("R15.1", fn, "param-not-in-key:" + p,
                             "memoised function %s looks its result up under a key that does not depend on parameter `%s`: two calls that differ only in `%s` return the same cached result"
                             % (fn, p, p))
        if not sets:
            chk.fail("R15.1", fn, "no-cache_set", "no cache_set found for memoised function %s" % fn)
        for b2, bb, t in sets:
            reached = _params_reaching(prog, b2, t.args[1])
            for p in params:
                nparams += 1
                if p in reached:
                    chk.ok("R15.1", "set:%s:%s" % (fn, p), "parameter `%s` is part of the stored key" % p, function=fn)
                else:
                    chk.fail("R15.1", fn, "param-not-in-stored-key:" + p, "%s stores its result under a key that does not depend on parameter `%s`" % (fn, p))
    chk.floor("R15.1", "parameter obligations", nparams, 20)

    # ---- R15.2 key equality is derived ----------------------------------------------------------------
    chk.rule("R15.2", "every workspace type inside a memo key derives Hash, PartialEq and Eq (no hand-written impl that could skip a field)")
    todo = set()
    for kt in key_types:
        todo |= set(re.findall(r"brush_[a-z_]+(?:::[A-Za-z_][A-Za-z0-9_]*)+", kt))
    seen = set()
    while todo:
        ty = todo.pop()
        if ty in seen:
            continue
        seen.add(ty)
        adt = prog.adts.get(canon(ty))
        if adt is None:
            continue
        for v in adt["variants"]:
            for f in v["fields"]:
                todo |= set(re.findall(r"brush_[a-z_]+(?:::[A-Za-z_][A-Za-z0-9_]*)+", f["ty"]))
        for tr in ("core::hash::Hash", "core::cmp::PartialEq", "core::cmp::Eq"):
            impls = [im for im in prog.impls if canon(im["self"]) == canon(ty) and canon(im.get("trait") or "") == tr]
            if not impls:
                chk.fail("R15.2", ty, "missing-impl:" + tr, "key component %s has no %s impl visible" % (ty, tr))
            elif all(im["derived"] for im in impls):
                chk.ok("R15.2", "%s:%s" % (ty.rsplit("::", 1)[-1], tr.rsplit("::", 1)[-1]), "derived", function=ty)
            else:
                chk.fail("R15.2", ty, "hand-written:" + tr, "key component %s implements %s by hand: a skipped field aliases distinct keys" % (ty, tr))
    chk.floor("R15.2", "workspace key component types", len([t for t in seen if canon(t) in prog.adts]), 2)

    # ---- R15.3 purity -------------------------------------------------------------------------------------
    chk.rule("R15.3", "memoised computations reference no mutable static / thread-local / ambient-state API besides the cache and tracing")
    cg = callgraph(prog)
    nb = 0
    for root, b, gets, sets in memo:
        fn = owner(root.name)
        reach = cg.reachable_from({root.name})
        bad = []
        cache_static = None
        for name in reach:
            bb_ = prog.body(name)
            if bb_ is None or bb_.crate not in SHIPPED:
                continue
            nb += 1
            for bl in bb_.blocks:
                if bl.cleanup:
                    continue
                ops = []
                for s in bl.stmts:
                    if s.kind == 'a':
                        ops += s.rv.ops
                        if s.rv.kind == "tls":
                            bad.append(("thread-local " + canon(s.rv.raw.get("def", "?")), bb_.name))
                ops += bl.term.args
                for o in ops:
                    if o.const is not None and o.const.static:
                        st = canon(o.const.static)
                        if bb_ is root or _memo_root(prog, bb_) is root:
                            cache_static = cache_static or st
                            if st.upper() == st or "CACHE" in st.upper() or st.rsplit("::", 1)[-1].isupper():
                                continue
                        if not _allowed_static(st):
                            bad.append(("static " + st, bb_.name))
                t = bl.term
                if t.kind == "call" and (t.callee or "").startswith(AMBIENT_CALLS):
                    bad.append(("call " + t.callee, bb_.name))
        # the hand-written regex cache is a thread_local: allowed when it is the cache itself
        bad = [x for x in bad if not (x[0].startswith("thread-local") and "CACHE" in x[0].upper() and _memo_root(prog, prog.body(x[1]) or root) is root)]
        if bad:
            for what, where in sorted(set(bad))[:5]:
                chk.fail("R15.3", fn, "ambient:" + what, "memoised computation %s reads ambient state (%s in %s): its result is not a function of the key" % (fn, what, where))
        else:
            chk.ok("R15.3", "pure:" + fn, "%d workspace bodies reachable; no mutable static / thread-local / env / clock / fs access" % len([n for n in reach if prog.body(n) is not None]), function=fn)
    chk.note("bodies_in_purity_closure", nb)
    completeness_prefix_rule(prog, chk)
    chk.rule("R15.5", "every memo key is reached from the parameters through identity conversions only (the key is an injective image of the inputs)")
    lossless_key_rule(prog, chk, "R15.5")
    position_unit_rule(prog, chk)
    line_base_rule(prog, chk)


PREFIX_PRESERVING = ("strip_suffix", "trim_end", "trim_end_matches", "trim_right", "trim_right_matches", "strip_suffix_of", "as_str", "as_ref", "deref",
                     "borrow", "to_owned", "to_string", "clone", "from", "into", "unwrap_or", "unwrap_or_default", "branch", "unwrap", "expect")
PREFIX_DROPPING = ("rsplit_once", "split_once", "rsplit", "rsplitn", "split", "splitn", "lines", "split_terminator", "rsplit_terminator",
                   "split_whitespace", "strip_prefix", "trim_start", "trim_start_matches", "trim_left", "trim", "trim_matches", "last", "nth",
                   "next_back", "split_at", "chars", "char_indices", "skip", "rev")


def completeness_prefix_rule(prog, chk):
    """R15.4: the completeness decision parses the accumulated text from its beginning. Tokenizer state at any point (open quote,
    comment, here-document, nesting) is a function of *all* text before it, so a parse that contributes to 'complete / needs more
    input' must be given the accumulated input itself or that input with something stripped from its END; a sub-slice that drops
    leading text (last line, text after a separator, a suffix range) is judged without its context."""
    chk.rule("R15.4", "in the input-completeness decision every text handed to the parser is the accumulated input or a prefix of it "
                      "(only suffix-stripping operations on the way): no parse of a tail or a single line")
    n = 0
    for b in prog.all_bodies({"brush_interactive"}):
        if "::completeness::" not in b.name and "completeness" not in (b.file or ""):
            continue
        d = defs_of(b)
        for bb, t in b.calls():
            cal = t.best_callee() or t.callee or ""
            if not (cal.endswith(("Shell::parse_string", "Parser::parse_program", "tokenize_str", "tokenize_str_with_options")) or
                    cal.startswith("brush_parser::") and cal.rsplit("::", 1)[-1].startswith(("parse", "tokenize"))):
                continue
            n += 1
            fn = owner(b.name)
            text = t.args[1] if cal.endswith("Shell::parse_string") and len(t.args) > 1 else t.args[0]
            flows = flow_back(b, d, text, all_args=False)
            vias = set()
            for f in flows:
                vias |= set(f.via)
            drops = sorted(v for v in vias if v.rsplit("::", 1)[-1] in PREFIX_DROPPING)
            # str Index with a RangeFrom / Range with non-zero start also drops the beginning
            for f in flows:
                if f.kind == 'call' and (f.node.best_callee() or "").rsplit("::", 1)[-1] in ("index", "get", "get_unchecked") and len(f.node.args) > 1:
                    vias.discard(f.node.best_callee())
                    rng = [g for g in flow_back(b, d, f.node.args[1], all_args=True) if g.kind == 'agg' and "ops::range::" in (g.node.raw.get("adt") or "")]
                    for g in rng:
                        kind = g.node.raw["adt"].rsplit("::", 1)[-1]
                        starts_at_zero = kind.startswith("RangeTo") or kind == "RangeFull" or \
                            (kind in ("Range", "RangeInclusive") and g.node.ops and g.node.ops[0].const is not None and g.node.ops[0].const.value == 0)
                        if not starts_at_zero:
                            drops.append("slice [" + kind + " not starting at 0]")
                    if not rng:
                        drops.append("slice with unrecognised bounds")
            unknown = sorted(v for v in vias if v.rsplit("::", 1)[-1] not in PREFIX_PRESERVING and v.rsplit("::", 1)[-1] not in PREFIX_DROPPING)
            roots = [f for f in flows if f.kind == 'arg']
            if drops:
                chk.fail("R15.4", fn, "completeness-parses-a-tail:" + drops[0].rsplit("::", 1)[-1],
                         "%s decides completeness from a parse of text that went through %s at %s: the beginning of the accumulated input is dropped, so quote / "
                         "comment / here-document state carried in from earlier lines is lost and a chunk may be run before its continuation arrives"
                         % (fn, ", ".join(x.rsplit("::", 2)[-1] if "::" in x else x for x in drops[:3]), b.loc(t.line)))
            elif unknown or not roots:
                chk.fail("R15.4", fn, "completeness-text-unrecognised",
                         "%s parses text of unrecognised provenance (%s) at %s: cannot show it is a prefix of the accumulated input"
                         % (fn, ", ".join(unknown[:4]) or "no parameter reached", b.loc(t.line)))
            else:
                chk.ok("R15.4", "prefix:%s:%s" % (fn.rsplit("::", 1)[-1], "+".join(sorted(v.rsplit("::", 1)[-1] for v in vias)) or "input"),
                       "parsed text is parameter `%s`%s" % (b.local_name(roots[0].node), " with only suffix-stripping on the way" if vias else ""), function=fn)
    chk.floor("R15.4", "parses inside the completeness decision", n, 2)


IDENTITY_CONVERSIONS = ("to_owned", "to_string", "clone", "into", "from", "as_ref", "as_str", "borrow", "deref", "to_vec", "as_bytes", "into_owned",
                        "as_deref", "clone_from", "to_path_buf", "as_path", "new", "default")


def lossless_key_rule(prog, chk, rid, only=None):
    """a memo key is an *injective* image of the parameters: on the way from a parameter to the key only identity conversions are
    passed (to_owned / clone / to_string / as_ref …). A key computed by a lossy function of the input (trim, split+collect, lowercase,
    hash, …) makes two different inputs share one cached result."""
    n = 0
    for b in prog.all_bodies(SHIPPED):
        gets = [(bb, t) for bb, t in b.calls() if (t.callee or "").endswith(("Cached::cache_get", "Cached::cache_set", "Cached::set"))]
        if not gets:
            continue
        root = _memo_root(prog, b)
        fn = owner(root.name)
        if only is not None and not only(fn):
            continue
        d = defs_of(b)
        for bb, t in gets:
            if len(t.args) < 2:
                continue
            n += 1
            flows = flow_back(b, d, t.args[1], all_args=True)
            lossy = sorted({v for f in flows for v in f.via
                            if v.rsplit("::", 1)[-1] not in IDENTITY_CONVERSIONS and not v.endswith(("Clone>::clone", "ToOwned>::to_owned", "ToString>::to_string"))
                            and not v.startswith(("core::ops::deref", "<alloc::string::String as core::ops::deref"))})
            # tuple / struct construction of several parameters is fine (agg), calls are what can lose information
            if lossy:
                chk.fail(rid, fn, "lossy-memo-key:" + lossy[0].rsplit("::", 1)[-1],
                         "the memo key of %s is computed through %s: inputs that this function maps to the same key share one cached result although they parse differently"
                         % (fn, ", ".join(x.rsplit("::", 2)[-1] if "::" in x else x for x in lossy[:3])))
            else:
                chk.ok(rid, "identity-key:%s:%s" % (fn.rsplit("::", 1)[-1], (t.callee or "").rsplit("::", 1)[-1]), "key reached through identity conversions only", function=fn)
    chk.floor(rid, "memo key operands examined", n, 1)


UNIT_OPS = ("Lt", "Le", "Gt", "Ge", "Eq", "Ne", "Sub", "Add", "SubWithOverflow", "AddWithOverflow")
BYTE_LEN = ("str::len", "alloc::string::String::len")
BYTE_INDEXED = ("str::get", "str::get_mut", "str::split_at", "str::is_char_boundary", "alloc::string::String::truncate", "alloc::string::String::insert",
                "alloc::string::String::insert_str", "alloc::string::String::split_off", "alloc::string::String::remove", "alloc::string::String::replace_range",
                "alloc::string::String::drain")


def position_unit_rule(prog, chk):
    """R15.6: SourcePosition.index counts *characters* (the tokenizer advances it once per char). The completeness decision, error
    reporting and the highlighter receive such positions together with the text; comparing one with a byte length (str::len) or using it
    as a byte offset into a str is right for ASCII and wrong as soon as the accumulated input contains a multi-byte character — on
    standard input that turns an unfinished here-document or quote into "bad input" and the program is handed over early."""
    from dataflow import flow_back
    from facts import canon
    chk.rule("R15.6", "SourcePosition.index (characters) is never compared / added / subtracted with a byte length (str::len) nor used as a byte offset into a str")

    def is_pos(fl):
        return any(any(canon(p[2]).endswith("source::SourcePosition") and p[3] == "index" for p in f.path if p[0] == 'f') for f in fl)

    def converted(fl):
        vias = {v for f in fl for v in f.via}
        return any(("Chars" in v and v.endswith("count")) or v.endswith(("char_indices", "CharIndices as core::iter::traits::iterator::Iterator>::nth", "Vec::get", "[T]::get")) for v in vias)

    n = 0
    for b in prog.all_bodies(SHIPPED):
        d = None
        fn = owner(b.name)
        for bl in b.blocks:
            for st in bl.stmts:
                if st.kind == 'a' and st.rv.kind == 'bin' and st.rv.op in UNIT_OPS and len(st.rv.ops) == 2:
                    d = d or defs_of(b)
                    fls = [flow_back(b, d, op, all_args=False) for op in st.rv.ops]
                    pos = [is_pos(fl) for fl in fls]
                    if not any(pos):
                        continue
                    n += 1
                    for i in (0, 1):
                        if pos[i] and not pos[1 - i]:
                            ovias = {v for f in fls[1 - i] for v in f.via}
                            if any(v in BYTE_LEN or v.endswith("::str::len") for v in ovias) and not converted(fls[1 - i]):
                                chk.fail("R15.6", fn, "character-position-vs-byte-length",
                                         "%s combines SourcePosition.index (a character count) with a byte length (%s, %s): equal only for ASCII text — with a multi-byte "
                                         "character in the input the comparison goes the other way" % (fn, st.rv.op, b.loc(bl.term.line)))
            t = bl.term
            if t.kind == "call" and (t.best_callee() or t.callee or "") in BYTE_INDEXED or t.kind == "call" and (t.best_callee() or t.callee or "").startswith("core::str::traits::<impl core::ops::index::Index"):
                d = d or defs_of(b)
                for a in t.args[1:]:
                    fl = flow_back(b, d, a, all_args=False)
                    if is_pos(fl) and not converted(fl):
                        n += 1
                        chk.fail("R15.6", fn, "character-position-as-byte-offset",
                                 "%s uses SourcePosition.index (a character count) as a byte offset in %s (%s)" % (fn, (t.best_callee() or t.callee).rsplit("::", 1)[-1], b.loc(t.line)))
    chk.floor("R15.6", "arithmetic / comparison sites on SourcePosition.index", n, 5)
    if not any(v["rule"] == "R15.6" for v in chk.violations):
        chk.ok("R15.6", "positions-stay-in-characters", "%d sites: positions are combined with positions and constants only" % n, function="(workspace)")


SH = "brush_core::shell::Shell::"
NESTED_RUNNERS = (SH + "run_string", SH + "run_parsed_result")
WRAPPERS = {SH + "run_string": "wrapper: parses, then run_parsed_result"}
FRAME_PUSH_PREFIX = "brush_core::callstack::CallStack::push_"
REBASERS = ("brush_core::callstack::CallStack::increment_current_line_offset", SH + "increment_interactive_line_offset")
# nested runs whose text is not a delivery mode of a program (typed at / produced by the interactive session itself)
SESSION_ONLY = {
    "brush_interactive::interactive_shell::InteractiveShell::execute_line": "each complete input is run in the session frame; its offset is advanced by the lines consumed (increment_interactive_line_offset after the run)",
    "brush_interactive::interactive_shell::InteractiveShell::run_pre_prompt_command": "PROMPT_COMMAND: run between inputs of an interactive session",
    "brush_builtins::fc::FcCommand::do_execute": "fc re-executes a history entry of an interactive session",
}


def line_base_rule(prog, chk):
    """R15.7: `$LINENO` is frame.start_line − 1 + position-in-parsed-text + frame.current_line_offset. A nested program text (a command
    substitution, an eval string, a trap handler, a sourced file, the -c string) is parsed on its own, so its positions start at line 1
    again. Whoever runs such a text must give it a line base: either a call-stack frame of its own (CallStack::push_*) or a rebase of the
    current frame's line offset by the line of the command being executed. Without one the number depends on how much offset the frame
    happened to have — zero for a script file or -c string, the lines consumed so far on standard input — so the same program prints
    different `$LINENO` values depending on how it was delivered."""
    from dataflow import flow_back
    chk.rule("R15.7", "every run of a nested program text (run_string / run_parsed_result) is dominated by a frame push or by a rebase of the "
                      "frame's line offset with the current command's line; reviewed interactive-session sites excepted")
    cg = callgraph(prog)
    pushers = set()
    for b in prog.all_bodies({"brush_core"}):
        fn = owner(b.name)
        if any((t.best_callee() or t.callee or "").startswith(FRAME_PUSH_PREFIX) for _, t in b.calls()):
            pushers.add(fn)
    n = 0
    for b, bb, t in prog.callers_of(*NESTED_RUNNERS, crates=SHIPPED):
        fn = owner(b.name)
        cal = t.best_callee() or t.callee or ""
        if "::tests::" in fn:
            continue
        n += 1
        c = cfg_of(b)
        d = defs_of(b)
        how = None
        for xb, xt in b.calls():
            xc = xt.best_callee() or xt.callee or ""
            if xb == bb:
                continue
            if not c.dominates(xb, bb):
                # `if let Some(line) = <current position> { rebase(line - 1) }`: nothing to rebase when the position is unknown
                if not (xc in REBASERS and bb in c.reachable_from(xb)):
                    continue
                guarded = False
                for w in range(len(b.blocks)):
                    tw = b.blocks[w].term
                    if tw.kind == "switch" and c.dominates(w, xb) and c.dominates(w, bb) and w != xb:
                        if any(any(v.endswith("CallStack::current_frame") for v in f.via) for f in flow_back(b, d, tw.discr, all_args=False)):
                            guarded = True
                if not guarded:
                    continue
            if xc.startswith(FRAME_PUSH_PREFIX) or xc in pushers and xc not in NESTED_RUNNERS:
                how = "frame: " + xc.rsplit("::", 1)[-1]
            elif xc in REBASERS and len(xt.args) >= 2:
                fl = flow_back(b, d, xt.args[1], all_args=True)
                direct = any("current" in f.field_path() and "line" in f.field_path() for f in fl)
                # `.current_frame().and_then(|frame| frame.current.as_ref().map(|pos| pos.line))`: the fields are read in closures
                via_frame = any(any(v.endswith("CallStack::current_frame") for v in f.via) for f in fl)
                if direct or (via_frame and _closures_read(prog, b, "current") and _closures_read(prog, b, "line")):
                    how = how or "rebase: line offset raised by the current command's line"
        if how:
            chk.ok("R15.7", "line-base@%s" % fn.split(" as ")[0].lstrip("<").rsplit("::", 2)[-2 if fn.startswith("<") else -1], how, function=fn)
        elif fn in WRAPPERS and cal in NESTED_RUNNERS:
            chk.ok("R15.7", "wrapper@" + fn.rsplit("::", 1)[-1], WRAPPERS[fn], nontrivial=False, function=fn)
        elif fn in SESSION_ONLY:
            chk.ok("R15.7", "session-only@" + fn.rsplit("::", 1)[-1], SESSION_ONLY[fn], nontrivial=False, function=fn)
        else:
            chk.fail("R15.7", fn, "nested-text-without-line-base",
                     "%s runs a separately parsed program text through %s (%s) in the current call frame without giving it a line base (no frame push, no rebase of the "
                     "line offset): `$LINENO` inside it is 1-based in a script file or -c string but offset by the lines already consumed on standard input"
                     % (fn, cal.rsplit("::", 1)[-1], b.loc(t.line)))
    chk.floor("R15.7", "nested program runs", n, 7)


def _closures_read(prog, b, field):
    """does some closure nested in body b read a field called `field`?"""
    pre = b.name + "::{closure"
    for cb in prog.all_bodies({b.crate}):
        if not cb.name.startswith(pre):
            continue
        for bl in cb.blocks:
            for st in bl.stmts:
                if st.kind != 'a':
                    continue
                places = [o.place for o in st.rv.ops if o.place is not None] + ([st.rv.place] if getattr(st.rv, "place", None) is not None else [])
                for pl in places:
                    if any(p[0] == 'f' and p[3] == field for p in pl.proj):
                        return True
    return False
