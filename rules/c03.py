"""C03 — errexit / nounset / pipefail (DESIGN §3 C03)."""
from rulelib import (SHIPPED, arm_regions, bool_edges, call_sites, cfg_of, defs_of, enum_switches, owner,
                     switches_on_call, switches_on_field)
from dataflow import base_local, borrow_root, const_value, field_stores, forward_taint, origins, rvalue_origins
from facts import canon

EXEC = "brush_core::interp::Execute::execute"
SHELL = "brush_core::shell::Shell"
APPLY = SHELL + "::apply_errexit_if_enabled"
PIPE = "<brush_parser::ast::Pipeline as brush_core::interp::Execute>::execute"
ANDOR = "<brush_parser::ast::AndOrList as brush_core::interp::Execute>::execute"
EXPANDER = "brush_core::expansion::WordExpander"

CONDITION_FIELDS = {("brush_parser::ast::IfClauseCommand", "condition"), ("brush_parser::ast::ElseClause", "condition"),
                    ("brush_parser::ast::WhileOrUntilClauseCommand", "0")}
BODY_FIELDS = {("brush_parser::ast::IfClauseCommand", "then"), ("brush_parser::ast::ElseClause", "body"),
               ("brush_parser::ast::DoGroupCommand", "list")}

TOLERANT = {"UseDefaultValues", "AssignDefaultValues", "IndicateErrorIfNullOrUnset", "UseAlternativeValue"}
BOTH = {"ParameterLength"}


FRESH_PARAMS_ENTRY_POINTS = {
    "brush_core::shell::Shell::run_dash_c_command": "front-end (-c)",
    "brush_core::shell::Shell::run_script": "front-end (script file)",
    "brush_core::shell::Shell::load_config": "start-up files",
    "brush_core::shell::Shell::load_history": "start-up (history file open)",
    "brush_core::shell::Shell::expand_prompt_var": "prompt expansion between commands",
    "brush_core::shell::Shell::on_exit": "EXIT trap at shell exit (no enclosing construct)",
    "brush_core::completion::Spec::get_completions": "programmable completion (line editor, between commands)",
    "brush_core::completion::Spec::call_completion_command": "programmable completion (line editor)",
    "brush_core::completion::Spec::call_completion_function": "programmable completion (line editor)",
    "brush_core::completion::get_file_completions": "programmable completion (line editor)",
    "brush_interactive::interactive_shell::InteractiveShell::execute_line": "front-end (interactive / stdin line)",
    "brush_interactive::interactive_shell::InteractiveShell::run_pre_prompt_actions": "PROMPT_COMMAND between commands",
    "brush_interactive::interactive_shell::InteractiveShell::run_pre_exec_actions": "pre-exec hook between commands",
    "brush_interactive::interactive_shell::InteractiveShell::run_pre_prompt_command": "PROMPT_COMMAND between commands",
}


def _copies_flag(b, st):
    """does the struct literal's suppress_errexit operand come from an existing (argument-rooted) parameters value?"""
    op = st.rv.field_ops().get("suppress_errexit")
    if op is None:
        return False
    os_ = origins(b, defs_of(b), op, transparent=set())
    return bool(os_) and all(o.kind in ('arg', 'unknown') and "suppress_errexit" in o.field_path() for o in os_)


def _recv_fields(b, t):
    d = defs_of(b)
    fs = set()
    for o in origins(b, d, t.args[0]):
        for p in o.path:
            if p[0] == 'f':
                fs.add((canon(p[2]), p[3]))
    return fs


def _suppress_stores(b, local):
    """(bb, Stmt) of `local.suppress_errexit = true`"""
    d = defs_of(b)
    out = []
    for bb, i, s in field_stores(b, "interp::ExecutionParameters", "suppress_errexit"):
        if s.place.local == local and s.rv.kind == 'use' and const_value(b, d, s.rv.ops[0]) == 1:
            out.append((bb, s))
    return out


def run(prog, chk):
    chk.explanation = (
        "Def-use + dominance rules on MIR: the suppress_errexit flag is set (dominating store on a *cloned* parameters value) for "
        "exactly the condition receivers of if/elif/while/until and never for their bodies; and-or operands and `!` pipelines get a "
        "conditional store; apply_errexit_if_enabled has exactly one call site, dominated by the false edges of suppress_errexit and "
        "bang (as is the ERR trap, plus !is_success); command substitution drops errexit on the clone under the inherit option before "
        "spawning; the ParameterExpr → {strict, unset-tolerant} table equals the reference; undefined_expansion raises a fatal "
        "ExpandingUnsetVariable only on the non-tolerant branch. Not decided: that the shell stops at the same command as bash for "
        "all programs; pipefail status arithmetic.")
    chk.assumptions = ["rustc MIR", "receiver AST field identifies the syntactic context"]

    # ---- R3.1 condition contexts ------------------------------------------------------------------------
    chk.rule("R3.1", "every Execute::execute on an if/elif/while/until *condition* receives a cloned params with a dominating "
                     "`suppress_errexit = true`; every execute on a then/else/loop *body* receives the incoming params")
    n_cond = n_body = 0
    for b in prog.all_bodies({"brush_core"}):
        c = None
        for bb, t in b.calls():
            if t.callee != EXEC or len(t.args) < 3:
                continue
            fs = _recv_fields(b, t)
            is_cond = bool(fs & CONDITION_FIELDS)
            is_body = bool(fs & BODY_FIELDS) and not is_cond
            if not (is_cond or is_body):
                continue
            c = c or cfg_of(b)
            if bb not in c.reach:
                continue
            fn = owner(b.name)
            d = defs_of(b)
            root, net, fields = borrow_root(b, d, t.args[2])
            owned = net is not None and net < 0
            ctx = sorted(fs & (CONDITION_FIELDS | BODY_FIELDS))[0]
            ctxs = "%s.%s" % (ctx[0].rsplit("::", 1)[-1], ctx[1])
            if is_cond:
                n_cond += 1
                if not owned:
                    chk.fail("R3.1", fn, "condition-gets-incoming-params:" + ctxs,
                             "%s executes the %s condition (line %s) with the caller's params: a failure inside the condition triggers errexit" % (fn, ctxs, t.line))
                    continue
                st = _suppress_stores(b, root)
                if any(c.dominates(sbb, bb) for sbb, _ in st):
                    chk.ok("R3.1", "condition:%s@%s" % (ctxs, fn), "params _%s has a dominating suppress_errexit=true store" % root, function=fn)
                else:
                    chk.fail("R3.1", fn, "condition-not-suppressed:" + ctxs,
                             "%s executes the %s condition (line %s) with parameters on which suppress_errexit is not set on every path" % (fn, ctxs, t.line))
            else:
                n_body += 1
                if owned and _suppress_stores(b, root):
                    chk.fail("R3.1", fn, "body-suppressed:" + ctxs,
                             "%s executes the %s body (line %s) with errexit-suppressed parameters: failures in the body no longer exit the shell" % (fn, ctxs, t.line))
                else:
                    chk.ok("R3.1", "body:%s@%s" % (ctxs, fn), "body runs with the incoming params (no suppression added)", function=fn)
    chk.floor("R3.1", "condition execute sites", n_cond, 3)
    chk.floor("R3.1", "body execute sites", n_body, 5)

    # ---- R3.2 and-or / bang ---------------------------------------------------------------------------------
    chk.rule("R3.2", "AndOrList: both Pipeline::execute sites pass cloned params with a *conditional* suppress store (non-final operand); "
                     "Pipeline::execute sets suppress_errexit under self.bang")
    ab = prog.impl_body(ANDOR)
    if chk.anchor("R3.2", ANDOR, ab):
        c = cfg_of(ab)
        d = defs_of(ab)
        sites = [(bb, t) for bb, t in ab.calls() if t.callee == EXEC and bb in c.reach]
        chk.floor("R3.2", "pipeline execute sites in AndOrList", len(sites), 2)
        for bb, t in sites:
            root, net, _ = borrow_root(ab, d, t.args[2])
            st = _suppress_stores(ab, root) if (net is not None and net < 0) else []
            if not st:
                chk.fail("R3.2", ANDOR, "operand-never-suppressed@%s" % ("first" if not any(bb in blks for blks in c.source_loops().values()) else "rest"),
                         "the and-or operand executed at line %s never gets suppress_errexit: `false && x` exits under set -e" % t.line)
                continue
            cond = not any(c.dominates(sbb, bb) for sbb, _ in st)
            if cond:
                chk.ok("R3.2", "operand-conditional@line-role", "store is conditional (a path with and a path without): final operand keeps errexit", function=ANDOR)
            else:
                chk.fail("R3.2", ANDOR, "operand-always-suppressed", "the operand at line %s always runs with errexit suppressed, including the final one" % t.line)
    pb = prog.impl_body(PIPE)
    if chk.anchor("R3.2", PIPE, pb):
        c = cfg_of(pb)
        st = field_stores(pb, "interp::ExecutionParameters", "suppress_errexit")
        bang = switches_on_field(pb, "bang")
        ok = False
        for sbb, i, s in st:
            for gb, gt in bang:
                f, t_ = bool_edges(gt)
                if c.dominates(gb, sbb) and sbb in c.reachable_from(t_) and (f is None or sbb not in c.reachable_from(f, avoid=[sbb]) or True):
                    # the store must only be reachable through the true edge before the join
                    if f is not None and c.path(f, [sbb]) is None:
                        ok = True
        if ok:
            chk.ok("R3.2", "bang-suppresses", "suppress_errexit = true only under self.bang", function=PIPE)
        else:
            chk.fail("R3.2", PIPE, "bang-store", "Pipeline::execute: no suppress_errexit store that is exclusive to the self.bang branch")

    # ---- R3.3 single application --------------------------------------------------------------------------
    chk.rule("R3.3", "apply_errexit_if_enabled: one call site, in Pipeline::execute, on the false edges of suppress_errexit and bang; "
                     "ERR trap under the same guards plus !is_success")
    sites = prog.callers_of(APPLY, crates=SHIPPED)
    if len(sites) != 1 or owner(sites[0][0].name) != PIPE:
        chk.fail("R3.3", "(callers)", "errexit-sites", "apply_errexit_if_enabled has %d call sites: %s (exactly one, in Pipeline::execute, expected)"
                 % (len(sites), sorted({owner(b.name) for b, _, _ in sites})))
    elif pb is not None:
        b, bb, t = sites[0]
        c = cfg_of(pb)

        def guarded_false(bbx, field):
            for gb, gt in switches_on_field(pb, field):
                f, t_ = bool_edges(gt)
                if c.dominates(gb, bbx) and bbx not in c.reachable_from(t_, avoid=[]) or \
                        (c.dominates(gb, bbx) and f is not None and c.path(t_, [bbx], avoid=[]) is None):
                    return True
            return False
        for field in ("suppress_errexit", "bang"):
            if guarded_false(bb, field):
                chk.ok("R3.3", "errexit-guard:" + field, "apply_errexit_if_enabled only on the false edge of %s" % field, function=PIPE)
            else:
                chk.fail("R3.3", PIPE, "errexit-unguarded:" + field, "apply_errexit_if_enabled is reachable when %s is true" % field)
        # ERR trap
        d = defs_of(pb)
        errs = []
        for tbb, tt in call_sites(pb, {SHELL + "::invoke_trap_handler"}):
            for o in origins(pb, d, tt.args[1]):
                if o.kind == 'agg' and o.node.variant == "Err":
                    errs.append((tbb, tt))
        if not errs:
            chk.fail("R3.3", PIPE, "err-trap-missing", "Pipeline::execute no longer fires the ERR trap")
        for tbb, tt in errs:
            for field in ("suppress_errexit", "bang"):
                if guarded_false(tbb, field):
                    chk.ok("R3.3", "errtrap-guard:" + field, "ERR trap only on the false edge of %s" % field, function=PIPE)
                else:
                    chk.fail("R3.3", PIPE, "errtrap-unguarded:" + field, "ERR trap fires while %s is true" % field)
            succ = [(sbb, st) for sbb, st, _ in switches_on_call(pb, ["ExecutionResult::is_success"]) if c.dominates(sbb, tbb)]
            good = False
            for sbb, st in succ:
                f, t_ = bool_edges(st)
                if c.path(t_, [tbb]) is None:
                    good = True
            if good:
                chk.ok("R3.3", "errtrap-only-on-failure", "ERR trap only on the false edge of is_success", function=PIPE)
            else:
                chk.fail("R3.3", PIPE, "errtrap-on-success", "ERR trap is reachable when the pipeline succeeded")
    # the applied function itself
    apb = prog.body(APPLY)
    if chk.anchor("R3.3", APPLY, apb):
        st = [s for _, _, s in field_stores(apb, "results::ExecutionResult", "next_control_flow")]
        fld = switches_on_field(apb, "exit_on_nonzero_command_exit")
        if st and fld and all(s.rv.kind == 'agg' and s.rv.variant == "ExitShell" or any(o.kind == 'agg' and o.node.variant == "ExitShell" for o in rvalue_origins(apb, defs_of(apb), s)) for s in st):
            chk.ok("R3.3", "errexit-effect", "sets ExitShell under options.exit_on_nonzero_command_exit", function=APPLY)
        else:
            chk.fail("R3.3", APPLY, "errexit-effect", "apply_errexit_if_enabled no longer stores ExitShell under exit_on_nonzero_command_exit")

    # ---- R3.4 command substitution ---------------------------------------------------------------------------
    chk.rule("R3.4", "command substitution: `exit_on_nonzero_command_exit = false` on the *cloned* shell, under "
                     "!command_subst_inherits_errexit, before the spawn")
    fn = "brush_core::commands::invoke_command_in_subshell_and_get_output"
    sb = prog.impl_body(fn)
    if chk.anchor("R3.4", fn, sb):
        c = cfg_of(sb)
        d = defs_of(sb)
        clones = [t for bb, t in sb.calls() if t.callee == "core::clone::Clone::clone" and t.self_ty and "shell::Shell" in t.self_ty]
        tainted = forward_taint(sb, {clones[0].dest.local}) if clones else set()
        st = [(bb, s) for bb, i, s in field_stores(sb, "options::RuntimeOptions", "exit_on_nonzero_command_exit")
              if s.rv.kind == 'use' and const_value(sb, d, s.rv.ops[0]) == 0]
        spw = call_sites(sb, {"tokio::task::spawn::spawn"})
        gates = switches_on_field(sb, "command_subst_inherits_errexit")
        if not (st and spw and gates and clones):
            chk.fail("R3.4", fn, "anchors", "store/spawn/option test/clone missing: %s %s %s %s" % (len(st), len(spw), len(gates), len(clones)))
        else:
            sbb, s = st[0]
            on_clone = s.place.local in tainted or any(o.kind == 'call' and o.local in tainted for o in origins(sb, d, s.place, transparent=set()))
            # options_mut() returns &mut into the clone: place is (*_x).field with _x = options_mut(&mut subshell)
            if not on_clone:
                for o in origins(sb, d, s.place, transparent=set()):
                    if o.kind == 'call' and any(a.place is not None and base_local(sb, d, a) in tainted for a in o.node.args):
                        on_clone = True
            gb, gt = gates[0]
            f, t_ = bool_edges(gt)
            exclusive = c.dominates(gb, sbb) and c.path(t_, [sbb]) is None
            before = spw[0][0] in c.reachable_after(sbb) and sbb not in c.reachable_after(spw[0][0])
            if on_clone and exclusive and before:
                chk.ok("R3.4", "subst-errexit", "errexit cleared on the clone, only when the inherit option is off, before the spawn", function=fn)
            else:
                chk.fail("R3.4", fn, "subst-errexit", "errexit handling of command substitution broken: on_clone=%s exclusive_to_!inherit=%s before_spawn=%s" % (on_clone, exclusive, before))

    # ---- R3.6 exemption travels with the parameters ------------------------------------------------------
    chk.rule("R3.6", "ExecutionParameters (which carries suppress_errexit) is only ever *cloned* into nested executions: struct literals exist "
                     "only in the derived Clone/Default impls, Default::default is called only by Shell::default_exec_params, and "
                     "default_exec_params only by the reviewed top-level entry points")
    EPT = "brush_core::interp::ExecutionParameters"
    nagg = 0
    for b in prog.all_bodies(SHIPPED):
        for bl in b.blocks:
            if bl.cleanup:
                continue
            for st in bl.stmts:
                if st.kind == 'a' and st.rv.kind == 'agg' and st.rv.adt == EPT:
                    nagg += 1
                    fn = owner(b.name)
                    if "Clone@core" in st.exp or "Default@core" in st.exp:
                        chk.ok("R3.6", "derived:" + fn, "derived impl", nontrivial=False, function=fn)
                    elif _copies_flag(b, st):
                        chk.ok("R3.6", "literal-copies-flag:" + fn, "struct literal takes suppress_errexit from an existing parameters value", function=fn)
                    else:
                        chk.fail("R3.6", fn, "params-struct-literal",
                                 "%s builds an ExecutionParameters with a struct literal at %s: fields not listed (suppress_errexit) silently fall back to their defaults, "
                                 "so the errexit exemption of the enclosing context is lost at this boundary" % (fn, b.loc(st.line)))
    chk.floor("R3.6", "ExecutionParameters aggregates (derived impls)", nagg, 2)
    dflt = {owner(b.name) for b, _, _ in prog.callers_of("<%s as core::default::Default>::default" % EPT, crates=SHIPPED)}
    if dflt <= {SHELL + "::default_exec_params"}:
        chk.ok("R3.6", "default-callers", "only Shell::default_exec_params creates parameters from scratch", function=SHELL + "::default_exec_params")
    else:
        for fn in sorted(dflt - {SHELL + "::default_exec_params"}):
            chk.fail("R3.6", fn, "fresh-params", "%s creates ExecutionParameters::default(): the caller's suppress_errexit (and descriptors) are dropped" % fn)
    for b, bb, t in prog.callers_of(SHELL + "::default_exec_params", crates=SHIPPED):
        fn = owner(b.name)
        if fn in FRESH_PARAMS_ENTRY_POINTS:
            chk.ok("R3.6", "entry:" + fn, FRESH_PARAMS_ENTRY_POINTS[fn], nontrivial=False, function=fn)
        else:
            chk.fail("R3.6", fn, "fresh-params-in-nested-context", "%s starts from default_exec_params() at %s: it is not a reviewed top-level entry point, so an enclosing "
                     "errexit-exempt context is forgotten" % (fn, b.loc(t.line)))

    exemption_only_set_rule(prog, chk)
    undefined_through_policy_rule(prog, chk)

    # ---- R3.5 nounset table -------------------------------------------------------------------------------------
    chk.rule("R3.5", "ParameterExpr variant → expand_parameter (strict) / expand_parameter_allowing_unset (tolerant) equals the "
                     "reference table; undefined_expansion raises fatal ExpandingUnsetVariable only when not tolerant")
    eb = prog.impl_body(EXPANDER + "::expand_parameter_expr")
    if chk.anchor("R3.5", EXPANDER + "::expand_parameter_expr", eb):
        sws = enum_switches(prog, eb, "brush_parser::word::ParameterExpr")
        if not sws:
            chk.fail("R3.5", eb.name, "switch-missing", "no switch on ParameterExpr")
        else:
            sbb, m, other, rest, _ = max(sws, key=lambda x: len(x[1]))
            targets = dict(m)
            regions = arm_regions(eb, sbb, targets)
            chk.floor("R3.5", "ParameterExpr arms", len(targets), 15)
            for v, blks in sorted(regions.items()):
                strict = [bb for bb, t in eb.calls() if bb in blks and t.best_callee() == EXPANDER + "::expand_parameter"]
                tol = [bb for bb, t in eb.calls() if bb in blks and t.best_callee() == EXPANDER + "::expand_parameter_allowing_unset"]
                got = "both" if strict and tol else "tolerant" if tol else "strict" if strict else "none"
                want = "tolerant" if v in TOLERANT else "both" if v in BOTH else "strict"
                if got == "none":
                    # arms that do not expand a parameter at all (e.g. prefix-name listings)
                    chk.ok("R3.5", "arm:" + v, "does not expand a parameter value", nontrivial=False, function=eb.name)
                elif got == want:
                    chk.ok("R3.5", "arm:" + v, got, function=eb.name)
                else:
                    chk.fail("R3.5", owner(eb.name), "unset-tolerance:" + v,
                             "${…} operator %s expands its parameter as `%s` (reference: %s): `set -u` %s" %
                             (v, got, want, "no longer rejects the unset parameter" if got != "strict" else "rejects an expansion bash accepts"))
    ub = prog.body(EXPANDER + "::undefined_expansion")
    if chk.anchor("R3.5", EXPANDER + "::undefined_expansion", ub):
        c = cfg_of(ub)
        d = defs_of(ub)
        aggs = [(bl.idx, s) for bl in ub.blocks for s in bl.stmts if s.kind == 'a' and s.rv.kind == 'agg' and s.rv.variant == "ExpandingUnsetVariable"]
        fatal = call_sites(ub, {"brush_core::error::Error::into_fatal"})
        allow = [(bb, t) for bb, t in [(bl.idx, bl.term) for bl in ub.blocks] if t.kind == "switch"
                 and any(o.kind == 'arg' and ub.local_name(o.node) == "allow_unset_vars" for o in origins(ub, d, t.discr))]
        opt = switches_on_field(ub, "treat_unset_variables_as_error")
        if aggs and fatal and allow and opt:
            abb = aggs[0][0]
            f, t_ = bool_edges(allow[0][1])
            of, ot = bool_edges(opt[0][1])
            ok = c.path(t_, [abb]) is None and (of is None or c.path(of, [abb]) is None) and any(fb in c.reachable_after(abb) or fb == abb for fb, _ in fatal)
            if ok:
                chk.ok("R3.5", "undefined_expansion", "fatal ExpandingUnsetVariable only when !allow_unset_vars && nounset", function=ub.name)
            else:
                chk.fail("R3.5", ub.name, "undefined_expansion-guards", "the unset-variable error is not exclusive to (!allow_unset_vars && treat_unset_variables_as_error) or is not fatal")
        else:
            chk.fail("R3.5", ub.name, "undefined_expansion-anchors", "ExpandingUnsetVariable/into_fatal/allow_unset_vars/option test missing: %s %s %s %s" % (len(aggs), len(fatal), len(allow), len(opt)))


def exemption_only_set_rule(prog, chk):
    """R3.7: the errexit-exemption flag only ever gets *set*. It is inherited by cloning the parameters (R3.6) and switched on for the
    exempt contexts (R3.1/R3.2); nothing may store `false` into ExecutionParameters.suppress_errexit — that would drop the exemption for
    whatever runs below (`if x=$(false; echo survived); …` under inherit_errexit)."""
    chk.rule("R3.7", "every store to ExecutionParameters.suppress_errexit stores the constant true (the exemption is inherited, never cleared)")
    n = 0
    for b in prog.all_bodies(SHIPPED):
        d = None
        for bb, i, st in field_stores(b, "interp::ExecutionParameters", "suppress_errexit"):
            n += 1
            d = d or defs_of(b)
            fn = owner(b.name)
            cv = const_value(b, d, st.rv.ops[0]) if st.rv.ops else None
            if cv == 1:
                chk.ok("R3.7", "sets-exemption@" + fn.split(" as ")[0].lstrip("<").rsplit("::", 1)[-1], "stores true", function=fn)
            elif cv == 0:
                chk.fail("R3.7", fn, "exemption-cleared", "%s stores false into suppress_errexit (%s): an enclosing errexit-exempt context is forgotten for everything executed "
                         "with these parameters" % (fn, b.loc(b.blocks[bb].term.line)))
            else:
                # a copied value: must derive from another suppress_errexit
                og = origins(b, d, st.rv.ops[0], through_ops=True) if st.rv.ops else []
                if any("suppress_errexit" in o.field_path() for o in og):
                    chk.ok("R3.7", "copies-exemption@" + fn.rsplit("::", 1)[-1], "copies the flag from other parameters", function=fn)
                else:
                    chk.fail("R3.7", fn, "exemption-computed", "%s stores a computed value into suppress_errexit (%s)" % (fn, b.loc(b.blocks[bb].term.line)))
    chk.floor("R3.7", "stores to suppress_errexit", n, 4)


def undefined_through_policy_rule(prog, chk):
    """R3.8: an expansion that finds no value goes through WordExpander::undefined_expansion, the one place that applies nounset
    (fatal ExpandingUnsetVariable unless the operator tolerates unset). Expansion::undefined() — the "no value" result — has that function
    as its only caller; a parameter arm that builds the result itself (for a missing array element, say) silently skips `set -u`."""
    chk.rule("R3.8", "Expansion::undefined() is constructed only inside WordExpander::undefined_expansion (the nounset policy point)")
    callers = sorted({owner(b.name) for b, bb, t in prog.callers_of("brush_core::expansion::Expansion::undefined", crates=SHIPPED)})
    chk.floor("R3.8", "callers of Expansion::undefined", len(callers), 1)
    for fn in callers:
        if fn == EXPANDER + "::undefined_expansion":
            chk.ok("R3.8", "policy-point", "undefined_expansion builds the undefined result after consulting nounset", function=fn)
        else:
            chk.fail("R3.8", fn, "undefined-result-bypasses-nounset",
                     "%s builds Expansion::undefined() itself instead of calling undefined_expansion: under `set -u` the missing value expands to empty and the script "
                     "goes on — `set -u; a=(x); echo ${a[5]}` no longer aborts" % fn)
    # and direct struct construction with undefined: true elsewhere
    for b in prog.all_bodies({"brush_core"}):
        fn = owner(b.name)
        if fn in (EXPANDER + "::undefined_expansion", "brush_core::expansion::Expansion::undefined") or "expansion" not in fn:
            continue
        d = None
        for bl in b.blocks:
            for st in bl.stmts:
                if st.kind == 'a' and st.rv.kind == 'agg' and (st.rv.adt or "").endswith("expansion::Expansion"):
                    names = st.rv.raw.get("fn") or []
                    if "undefined" in names:
                        d = d or defs_of(b)
                        if const_value(b, d, st.rv.ops[names.index("undefined")]) == 1:
                            chk.fail("R3.8", fn, "undefined-literal-bypasses-nounset", "%s constructs Expansion { undefined: true, .. } outside undefined_expansion" % fn)
