"""C12 — subshell isolation (DESIGN §3 C12)."""
import re

from rulelib import SHIPPED, call_sites, callgraph, cfg_of, defs_of, owner
from dataflow import base_local, forward_taint, origins, rvalue_origins
from facts import canon

SHELL = "brush_core::shell::Shell"
CLONE = "<brush_core::shell::Shell as core::clone::Clone>::clone"
EXEC = "brush_core::interp::Execute::execute"

# field -> reason it is not a plain copy of self.<field>
CLONE_EXCEPTIONS = {
    "jobs": "fresh job table: a subshell does not own its parent's jobs",
}

MUTATORS = {
    "nix::sys::stat::umask", "libc::unix::umask",
    "rlimit::resource::Resource::set", "rlimit::setrlimit", "nix::sys::resource::setrlimit", "libc::unix::setrlimit",
    "std::env::set_current_dir", "std::env::set_var", "std::env::remove_var",
    "nix::unistd::chdir", "nix::unistd::fchdir", "nix::unistd::setsid", "nix::unistd::setpgid", "nix::unistd::tcsetpgrp",
    "nix::unistd::close", "nix::unistd::dup2", "nix::unistd::dup3", "nix::unistd::chroot",
    "nix::sys::signal::sigaction", "nix::sys::signal::signal", "nix::sys::signal::sigprocmask",
    "nix::sys::termios::tcsetattr",
    "std::os::unix::process::CommandExt::exec", "std::process::exit", "std::process::abort",
}
# reviewed sites: (owner function, api) -> reason
MUTATOR_ALLOWED = {
    ("brush_core::sys::unix::signal::lead_new_process_group", "nix::unistd::setpgid"):
        "called once by the interactive top-level shell at start-up (job-control setup), never from command execution",
    ("brush_core::sys::unix::signal::mask_sigttou", "nix::sys::signal::sigaction"):
        "interactive start-up only: ignore SIGTTOU for terminal control",
    ("brush_core::sys::unix::terminal::move_self_to_foreground", "nix::unistd::tcsetpgrp"):
        "terminal foreground control: the controlling terminal is shared process state by design (as in bash job control)",
    ("brush_core::sys::unix::terminal::move_to_foreground", "nix::unistd::tcsetpgrp"):
        "terminal foreground control for fg/job resume",
    ("brush_core::sys::unix::terminal::Config::apply_to_term", "nix::sys::termios::tcsetattr"):
        "terminal mode save/restore around interactive reads",
    ("brush_shell::entry::run", "std::process::exit"):
        "process entry point, after the runtime returned",
}


def _type_walk(prog, ty, seen, depth=0, path=""):
    """textual walk of a fully-qualified type string through workspace ADT fields; yields
    (path, type) for every Arc/Rc/&'static/raw pointer handle found"""
    out = []
    # fn-pointer signatures mention types without holding values of them
    k = ty.find("fn(")
    if k >= 0:
        ty = ty[:k]
    for m in re.finditer(r"(alloc::sync::Arc|alloc::rc::Rc|alloc::sync::Weak)<", ty):
        # balanced extraction
        i = m.end() - 1
        d = 0
        j = i
        while j < len(ty):
            if ty[j] == '<':
                d += 1
            elif ty[j] == '>' and ty[j - 1] not in '-=':
                d -= 1
                if d == 0:
                    break
            j += 1
        out.append((path, ty[m.start():j + 1]))
    if "*mut " in ty or "*const " in ty:
        out.append((path, ty))
    if depth > 6:
        return out
    for name in set(re.findall(r"[A-Za-z_][A-Za-z0-9_]*(?:::[A-Za-z_][A-Za-z0-9_]*)+", ty)):
        adt = prog.adts.get(name)
        if adt is None or name in seen:
            continue
        seen.add(name)
        for v in adt["variants"]:
            for f in v["fields"]:
                out.extend(_type_walk(prog, f["ty"], seen, depth + 1, "%s>%s.%s" % (path, name.rsplit("::", 1)[-1], f["name"])))
    return out


INTERIOR_MUT = ("Mutex", "RwLock", "RefCell", "::Cell<", "Atomic", "OnceCell", "OnceLock", "UnsafeCell")

SHARED_ALLOWED = {
    "key_bindings": "Arc<Mutex<dyn KeyBindings>>: owned by the interactive UI (line editor), not shell semantic state",
}


def run(prog, chk):
    chk.explanation = (
        "Static decision of the isolation mechanism: Shell::clone copies every field from self (reviewed exceptions), no field of "
        "Shell reaches interior-mutable state through a shared handle (Arc/Rc) except reviewed ones, every process-global mutator "
        "API call site is in a pre_exec callback, behind !is_subshell(), or in a reviewed table, and every subshell-like context "
        "executes its body on a value produced by Shell::clone. Not decided: that all semantic state lives in Shell.")
    chk.assumptions = ["rustc MIR", "type strings are fully qualified (driver prints with no trimmed/visible paths)",
                       "external crates' types are opaque except for their generic arguments"]

    # ---- R12.1 clone completeness -------------------------------------------------------------------
    chk.rule("R12.1", "<Shell as Clone>::clone initialises every field from self.<same field> (clone/copy/+1), except reviewed fields")
    cb = prog.body(CLONE)
    adt = prog.adts.get(SHELL)
    if chk.anchor("R12.1", CLONE, cb) and chk.anchor("R12.1", SHELL, adt):
        d = defs_of(cb)
        aggs = [s for bl in cb.blocks for s in bl.stmts if s.kind == 'a' and s.rv.kind == 'agg' and s.rv.adt == SHELL]
        if len(aggs) != 1:
            chk.fail("R12.1", CLONE, "aggregate", "expected one Shell aggregate in clone, found %d" % len(aggs))
        else:
            fields = aggs[0].rv.field_ops()
            declared = [f["name"] for f in adt["variants"][0]["fields"]]
            chk.floor("R12.1", "Shell fields", len(declared), 25)
            for f in declared:
                op = fields.get(f)
                if op is None:
                    chk.fail("R12.1", CLONE, "field-missing:" + f, "field %s is not initialised in the clone aggregate" % f)
                    continue
                srcs = origins(cb, d, op, through_ops=True)
                from_self = [o for o in srcs if o.kind == 'arg' and f in o.field_path()]
                other = [o for o in srcs if not (o.kind == 'arg' and f in o.field_path()) and o.kind != 'const']
                if from_self and not [o for o in other if o.kind != 'const']:
                    chk.ok("R12.1", "field:" + f, "copied from self." + f, function=CLONE)
                elif f in CLONE_EXCEPTIONS:
                    chk.ok("R12.1", "field:" + f, CLONE_EXCEPTIONS[f], nontrivial=False, function=CLONE)
                elif from_self:
                    chk.ok("R12.1", "field:" + f, "derived from self.%s (+ %s)" % (f, sorted({o.kind for o in other})), function=CLONE)
                else:
                    chk.fail("R12.1", CLONE, "field-not-copied:" + f,
                             "Shell::clone initialises `%s` from %s instead of self.%s: a subshell starts without its parent's %s"
                             % (f, [repr(o)[:60] for o in srcs][:2], f, f))
            # call_stack special: clear_active_trap_signals applied on the clone
            if call_sites(cb, {"brush_core::callstack::CallStack::clear_active_trap_signals"}):
                chk.ok("R12.1", "call_stack-trap-state-cleared", "clone clears active trap signals", nontrivial=False, function=CLONE)

    # ---- R12.2 shared mutable handles ------------------------------------------------------------------
    chk.rule("R12.2", "no field of Shell reaches interior-mutable state through Arc/Rc/raw pointers (shared between a shell and its clone)")
    if adt is not None:
        nh = 0
        for f in adt["variants"][0]["fields"]:
            for path, hty in _type_walk(prog, f["ty"], set(), 0, f["name"]):
                nh += 1
                shared_mut = any(k in hty for k in INTERIOR_MUT)
                top = path.split(">")[0]
                if not shared_mut:
                    chk.ok("R12.2", "handle:%s:%s" % (path, hty[:60]), "shared handle to immutable data / OS description", function=SHELL)
                elif top in SHARED_ALLOWED:
                    chk.ok("R12.2", "handle:%s" % path, SHARED_ALLOWED[top], nontrivial=False, function=SHELL)
                else:
                    chk.fail("R12.2", SHELL, "shared-mutable:%s" % path, "Shell.%s holds %s: state mutated through it in a subshell is visible to the parent" % (path, hty))
        chk.floor("R12.2", "shared handles reachable from Shell", nh, 3)

    # ---- R12.3 process-global mutators -------------------------------------------------------------------
    chk.rule("R12.3", "every call of a process-global mutator API is inside a pre_exec callback (child only), behind the false edge of "
                      "Shell::is_subshell(), or in the reviewed table")
    # pre_exec callbacks
    preexec = set()
    for b in prog.all_bodies(SHIPPED):
        for bb, t in b.calls():
            if (t.callee or "").endswith("CommandExt::pre_exec"):
                for a in t.args:
                    for o in origins(b, defs_of(b), a):
                        if o.kind == 'const' and o.node.fn:
                            preexec.add(canon(o.node.fn))
                        if o.kind == 'agg' and o.node.raw.get("def"):
                            preexec.add(canon(o.node.raw["def"]))
    chk.note("pre_exec_callbacks", sorted(preexec))
    n = 0
    for b in prog.all_bodies(SHIPPED):
        for bb, t in b.calls():
            cands = {t.callee, t.best_callee()}
            hit = cands & MUTATORS
            if not hit:
                # resolved trait form of CommandExt::exec
                if t.callee == "std::os::unix::process::CommandExt::exec":
                    hit = {t.callee}
                else:
                    continue
            api = sorted(hit)[0]
            fn = owner(b.name)
            n += 1
            if fn in preexec or b.name in preexec:
                chk.ok("R12.3", "%s@%s" % (api, fn), "inside a pre_exec callback: runs in the forked child only", function=fn)
                continue
            if _behind_not_subshell(b, bb):
                chk.ok("R12.3", "%s@%s" % (api, fn), "dominated by the false edge of Shell::is_subshell()", function=fn)
                continue
            if (fn, api) in MUTATOR_ALLOWED:
                chk.ok("R12.3", "%s@%s" % (api, fn), MUTATOR_ALLOWED[(fn, api)], nontrivial=False, function=fn)
                continue
            chk.fail("R12.3", fn, "global-mutator:" + api,
                     "%s calls %s at %s with no subshell guard: the effect escapes a `( … )`/`$( … )`/pipeline-stage clone into the parent shell"
                     % (fn, api, b.loc(t.line)))
    chk.floor("R12.3", "process-global mutator sites", n, 10)

    # ---- R12.4 subshell contexts run on a clone ------------------------------------------------------------
    chk.rule("R12.4", "each subshell-like context executes its body on a value derived from Shell::clone, not on the incoming &mut Shell")
    contexts = [
        ("<brush_parser::ast::CompoundCommand as brush_core::interp::Execute>::execute", "Subshell `( )`", "execute-on-clone"),
        ("brush_core::commands::invoke_command_in_subshell_and_get_output", "command substitution", "clone-into-spawn"),
        ("brush_core::interp::setup_process_substitution", "process substitution", "clone-into-spawn"),
        ("<brush_parser::ast::CoprocessCommand as brush_core::interp::Execute>::execute", "coprocess", "clone-into-spawn"),
        ("brush_core::interp::spawn_async_ao_list_in_task", "background list", "clone-into-spawn"),
        ("brush_core::interp::spawn_pipeline_processes", "non-final pipeline stage", "clone-into-owned"),
    ]
    for fn, what, mode in contexts:
        b = prog.impl_body(fn)
        if not chk.anchor("R12.4", fn, b):
            continue
        clones = [(bb, t) for bb, t in b.calls() if t.callee == "core::clone::Clone::clone" and t.self_ty and canon(t.self_ty).startswith(SHELL)]
        if not clones:
            chk.fail("R12.4", fn, "no-clone", "%s (%s) no longer clones the shell" % (fn, what))
            continue
        tainted = set()
        for bb, t in clones:
            tainted |= forward_taint(b, {t.dest.local})
        ok = False
        if mode == "execute-on-clone":
            # the Subshell arm: an Execute::execute call whose shell argument is tainted by the clone
            for bb, t in b.calls():
                if t.callee == EXEC and len(t.args) > 1 and t.args[1].place is not None:
                    bl = base_local(b, defs_of(b), t.args[1])
                    if bl in tainted:
                        ok = True
        elif mode == "clone-into-spawn":
            for bb, t in call_sites(b, {"tokio::task::spawn::spawn"}):
                if any(a.place is not None and a.place.local in tainted for a in t.args):
                    ok = True
        else:
            # clone boxed into ShellForCommand::OwnedShell
            for bl in b.blocks:
                for s in bl.stmts:
                    if s.kind == 'a' and s.rv.kind == 'agg' and s.rv.adt == "brush_core::commands::ShellForCommand" and s.rv.variant == "OwnedShell":
                        if any(o.place is not None and o.place.local in tainted for o in s.rv.ops):
                            ok = True
        if ok:
            chk.ok("R12.4", "%s" % what, "body runs on the value produced by Shell::clone (%s)" % mode, function=fn)
        else:
            chk.fail("R12.4", fn, "body-not-on-clone", "%s: the cloned shell does not flow into the executed body (%s)" % (what, mode))
    current_shell_stage_rule(prog, chk)
    stage_error_containment_rule(prog, chk)
    job_result_reduction_rule(prog, chk)
    nested_subshell_grammar_rule(prog, chk)


def _sanctioned_edges(b, len_locals=()):
    """true-edges of `<len> == 1` and of the lastpipe option test in body b. <len> is a value obtained from a ::len() call or one
    of the locals in len_locals (parameters whose call-site argument is a length)."""
    from rulelib import bool_edges, switches_on_field
    from dataflow import const_value
    c = cfg_of(b)
    d = defs_of(b)
    removed = set()
    for bl in b.blocks:
        t = bl.term
        if t.kind != "switch" or t.ty != "bool" or bl.idx not in c.reach:
            continue
        for o in origins(b, d, t.discr, transparent=set()):
            if o.kind == 'op' and o.node.kind == 'bin' and o.node.op == "Eq" and const_value(b, d, o.node.ops[1]) == 1:
                src = origins(b, d, o.node.ops[0], transparent=set())
                if any(x.kind == 'call' and (x.node.best_callee() or x.node.callee or "").endswith("::len") for x in src) or \
                        any(x.kind == 'arg' and x.node in len_locals for x in src):
                    f, tr = bool_edges(t)
                    removed.add((bl.idx, tr))
    for gb, gt in switches_on_field(b, "run_last_pipeline_cmd_in_current_shell"):
        f, tr = bool_edges(gt)
        removed.add((gb, tr))
    return removed


def _jobcontrol_edges(b, len_locals=()):
    """edges to cut for the second question ("with job control ON, only a single-command pipeline runs in the current shell"): the
    true-edges of `<len> == 1` and the FALSE edges of tests of the enable_job_control option. Returns (edges, number of job-control tests)."""
    from rulelib import bool_edges, switches_on_field
    removed = {e for e in _sanctioned_edges(b, len_locals) if True}
    # keep only the len==1 edges: drop the lastpipe ones
    lastpipe = set()
    for gb, gt in switches_on_field(b, "run_last_pipeline_cmd_in_current_shell"):
        f, tr = bool_edges(gt)
        lastpipe.add((gb, tr))
    removed -= lastpipe
    njc = 0
    d = defs_of(b)
    for gb, gt in switches_on_field(b, "enable_job_control", through_ops=True):
        f, tr = bool_edges(gt)
        if f is None:
            continue
        # polarity: is the switch discriminant the option itself or its negation?
        neg = False
        pure = True
        loc = gt.discr.place.local if gt.discr.place is not None and gt.discr.place.is_local() else None
        for _ in range(6):
            if loc is None:
                break
            ds = d.of(loc)
            if len(ds) != 1 or ds[0][0] != 'assign':
                break
            rv = ds[0][3].rv
            if rv.kind == 'un':
                neg = not neg
                loc = rv.ops[0].place.local if rv.ops[0].place is not None and rv.ops[0].place.is_local() else None
                if loc is None:
                    break
            elif rv.kind == 'use' and rv.ops[0].place is not None:
                if rv.ops[0].place.is_local():
                    loc = rv.ops[0].place.local
                else:
                    break
            elif rv.kind == 'bin':
                pure = False
                break
            else:
                break
        if not pure:
            continue            # a combined condition is not a test of the option alone
        off_edge = tr if neg else f          # the edge taken when job control is OFF
        removed.add((gb, off_edge))
        njc += 1
    return removed, njc


def _not_jobcontrol_defs(b, local):
    """blocks in which `local` is assigned `!<enable_job_control option>` (the option read directly): such a definition is false
    whenever job control is on"""
    d = defs_of(b)
    out = set()
    for kind, dbb, idx, node in d.of(local):
        if kind != 'assign' or node.rv.kind != 'un':
            continue
        op = node.rv.ops[0]
        if op.place is None:
            continue
        pl = op.place
        for _ in range(4):
            if any(p[0] == 'f' and p[3] == "enable_job_control" for p in pl.proj):
                out.add(dbb)
                break
            if not pl.is_local():
                break
            ds = d.of(pl.local)
            if len(ds) != 1 or ds[0][0] != 'assign' or ds[0][3].rv.kind != 'use' or ds[0][3].rv.ops[0].place is None:
                break
            pl = ds[0][3].rv.ops[0].place
    return out


def _reach_without(b, removed, targets):
    c = cfg_of(b)
    seen = {0}
    stack = [0]
    prev = {}
    while stack:
        x = stack.pop()
        for sx in c.succ[x]:
            if (x, sx) in removed or sx in seen:
                continue
            seen.add(sx)
            prev[sx] = x
            stack.append(sx)
    bad = [p for p in targets if p in seen]
    if not bad:
        return None
    path = [bad[0]]
    while path[-1] in prev and len(path) < 40:
        path.append(prev[path[-1]])
    return list(reversed(path))


def current_shell_stage_rule(prog, chk):
    """R12.5: in spawn_pipeline_processes a stage gets ShellForCommand::ParentShell (runs in the current shell, un-isolated) only on the
    `pipeline_len == 1` edge or the `run_last_pipeline_cmd_in_current_shell` (lastpipe) edge. The decision may be materialised in a bool
    local and/or computed by a helper function returning bool; the rule follows both."""
    from rulelib import bool_edges
    chk.rule("R12.5", "a pipeline stage runs in the current shell (ParentShell) only for single-command pipelines or under the lastpipe "
                      "option: with those two true-edges removed, the ParentShell construction is unreachable")
    fn = "brush_core::interp::spawn_pipeline_processes"
    b = prog.impl_body(fn)
    if not chk.anchor("R12.5", fn, b):
        return
    c = cfg_of(b)
    d = defs_of(b)
    parents = [bl.idx for bl in b.blocks for s in bl.stmts if s.kind == 'a' and s.rv.kind == 'agg'
               and s.rv.adt == "brush_core::commands::ShellForCommand" and s.rv.variant == "ParentShell" and bl.idx in c.reach]
    owned = [bl.idx for bl in b.blocks for s in bl.stmts if s.kind == 'a' and s.rv.kind == 'agg'
             and s.rv.adt == "brush_core::commands::ShellForCommand" and s.rv.variant == "OwnedShell" and bl.idx in c.reach]
    if not parents or not owned:
        chk.fail("R12.5", fn, "anchors", "ParentShell / OwnedShell constructions not found (%d, %d)" % (len(parents), len(owned)))
        return
    # the decision is usually materialised in a bool local (`let run_in_current_shell = …`), then tested: in that case the *targets*
    # are the blocks that can make that local true; if it is the result of a helper call, the helper's body is analysed instead
    targets = list(parents)
    helper_calls = []
    flag_chain = set()
    for bl in b.blocks:
        t = bl.term
        if t.kind == "switch" and t.ty == "bool" and t.discr.place is not None and t.discr.place.is_local() and bl.idx in c.reach:
            f, tr = bool_edges(t)
            if f is None:
                continue
            p_true = all(p == tr or p in c.reachable_from(tr, avoid=[bl.idx]) for p in parents)
            p_false = any(p == f or p in c.reachable_from(f, avoid=[bl.idx]) for p in parents)
            o_false = all(o == f or o in c.reachable_from(f, avoid=[bl.idx]) for o in owned)
            if p_true and not p_false and o_false:
                tb = []
                seen_l = set()
                work = [t.discr.place.local]
                while work:
                    l = work.pop()
                    if l in seen_l:
                        continue
                    seen_l.add(l)
                    flag_chain.add(l)
                    for kind, dbb, idx, node in d.of(l):
                        if kind == 'assign' and node.rv.kind == 'use':
                            o = node.rv.ops[0]
                            if o.const is not None:
                                if o.const.value != 0:
                                    tb.append(dbb)
                            elif o.place is not None and o.place.is_local():
                                work.append(o.place.local)
                            else:
                                tb.append(dbb)
                        elif kind == 'call':
                            hb = prog.body(node.best_callee() or "")
                            if hb is not None and hb.crate in SHIPPED and hb.ret == "bool":
                                helper_calls.append((dbb, node, hb))
                            else:
                                tb.append(dbb)
                        else:
                            tb.append(dbb)
                if tb or helper_calls:
                    targets = tb
    nguards = 0
    problems = []
    jc_problems = []
    if targets:
        removed = _sanctioned_edges(b)
        nguards += len(removed)
        if len(removed) < 2 and not helper_calls:
            chk.fail("R12.5", fn, "guards-missing", "the `pipeline_len == 1` / lastpipe tests were not found (%d)" % len(removed))
            return
        p = _reach_without(b, removed, targets)
        if p is not None:
            problems.append((b, p))
        if not helper_calls:
            r2, njc = _jobcontrol_edges(b)
            notjc = set()
            for l in flag_chain:
                notjc |= _not_jobcontrol_defs(b, l)
            njc += len(notjc)
            if njc == 0:
                jc_problems.append((b, None))
            else:
                p2 = _reach_without(b, r2, [x for x in targets if x not in notjc])
                if p2 is not None:
                    jc_problems.append((b, p2))
    for dbb, call, hb in helper_calls:
        # parameters of the helper that receive a length at this call site
        len_locals = set()
        for i, a in enumerate(call.args):
            if any(x.kind == 'call' and (x.node.best_callee() or x.node.callee or "").endswith("::len") for x in origins(b, d, a, transparent=set())):
                len_locals.add(i + 1)
        removed = _sanctioned_edges(hb, len_locals)
        nguards += len(removed)
        if len(removed) < 2:
            chk.fail("R12.5", fn, "current-shell-stage-without-lastpipe",
                     "the current-shell decision for a pipeline stage can be made true by %s, which tests neither `pipeline_len == 1` nor the lastpipe option: "
                     "a stage runs un-isolated in the enclosing shell" % hb.name)
            return
        hd = defs_of(hb)
        hc = cfg_of(hb)
        tt = []
        for kind, dbb2, idx, node in hd.of(0):
            if kind == 'assign' and node.rv.kind == 'use' and node.rv.ops[0].const is not None and node.rv.ops[0].const.value == 0:
                continue
            tt.append(dbb2)
        p = _reach_without(hb, removed, [x for x in tt if x in hc.reach])
        if p is not None:
            problems.append((hb, p))
        r2, njc = _jobcontrol_edges(hb, len_locals)
        notjc = _not_jobcontrol_defs(hb, 0)
        njc += len(notjc)
        if njc == 0:
            jc_problems.append((hb, None))
        else:
            p2 = _reach_without(hb, r2, [x for x in tt if x in hc.reach and x not in notjc])
            if p2 is not None:
                jc_problems.append((hb, p2))
    if jc_problems and not problems:
        pb, path = jc_problems[0]
        chk.fail("R12.5", fn, "current-shell-stage-under-job-control",
                 "with job control enabled (`set -m`) the last stage of a multi-command pipeline can still be given the current shell (decided in %s%s): bash ignores "
                 "lastpipe whenever job control is on, interactive or not, so the stage's assignments, cd and options leak into the script's shell"
                 % (owner(pb.name), "" if path is None else ", path through blocks %s" % path[-6:]))
        return
    if problems:
        pb, path = problems[0]
        lines = sorted({pb.blocks[x].term.line for x in path if pb.blocks[x].term.kind == "switch"})
        chk.fail("R12.5", fn, "current-shell-stage-without-lastpipe",
                 "a pipeline stage can be given the *current* shell (ParentShell) without `pipeline_len == 1` or the lastpipe option (decided in %s, branches at lines %s): "
                 "its assignments, cd, options and descriptors leak into the enclosing shell" % (owner(pb.name), lines), detail={"path_blocks": path})
    else:
        chk.ok("R12.5", "current-shell-only-single-or-lastpipe", "ParentShell is unreachable once the two sanctioned true-edges are removed (%d guard edges%s)"
               % (nguards, "; decided by helper " + ", ".join(sorted({owner(h.name) for _, _, h in helper_calls})) if helper_calls else ""), function=fn)


def _behind_not_subshell(b, bb):
    c = cfg_of(b)
    d = defs_of(b)
    for bl in b.blocks:
        t = bl.term
        if t.kind != "switch" or not c.dominates(bl.idx, bb) or bl.idx == bb:
            continue
        for o in origins(b, d, t.discr):
            if o.kind == 'call' and (o.node.best_callee() or "").endswith("::is_subshell"):
                tsucc = t.otherwise
                if bb not in c.reachable_from(tsucc):
                    return True
    return False


def stage_error_containment_rule(prog, chk):
    """R12.6: an error raised while a pipeline stage runs in its own subshell ends that stage only. In spawn_pipeline_processes no
    error exit (`?` / `return Err`) is reachable from the return of `execute_in_pipeline` except through the current-shell edge of
    the flag that also decides ParentShell vs OwnedShell."""
    from rulelib import bool_edges
    chk.rule("R12.6", "errors of a pipeline stage that runs in its own subshell are turned into the stage's status: no error exit of "
                      "spawn_pipeline_processes is reachable from the stage's execution except on the current-shell edge")
    fn = "brush_core::interp::spawn_pipeline_processes"
    b = prog.impl_body(fn)
    if not chk.anchor("R12.6", fn, b):
        return
    c = cfg_of(b)
    d = defs_of(b)
    execs = [(bb, t) for bb, t in b.calls() if (t.best_callee() or t.callee or "").endswith("ExecuteInPipeline>::execute_in_pipeline")
             or (t.callee or "").endswith("ExecuteInPipeline::execute_in_pipeline")]
    if not execs:
        chk.fail("R12.6", fn, "stage-exec-missing", "no execute_in_pipeline call found in spawn_pipeline_processes")
        return
    parents = [bl.idx for bl in b.blocks for s in bl.stmts if s.kind == 'a' and s.rv.kind == 'agg'
               and s.rv.adt == "brush_core::commands::ShellForCommand" and s.rv.variant == "ParentShell" and bl.idx in c.reach]
    owned = [bl.idx for bl in b.blocks for s in bl.stmts if s.kind == 'a' and s.rv.kind == 'agg'
             and s.rv.adt == "brush_core::commands::ShellForCommand" and s.rv.variant == "OwnedShell" and bl.idx in c.reach]
    flag_locals = set()
    for bl in b.blocks:
        t = bl.term
        if t.kind == "switch" and t.ty == "bool" and t.discr.place is not None and t.discr.place.is_local() and bl.idx in c.reach and parents and owned:
            f, tr = bool_edges(t)
            if f is None:
                continue
            if all(p == tr or p in c.reachable_from(tr, avoid=[bl.idx]) for p in parents) and \
                    all(o == f or o in c.reachable_from(f, avoid=[bl.idx]) for o in owned) and \
                    not any(p == f or p in c.reachable_from(f, avoid=[bl.idx]) for p in parents):
                work = [t.discr.place.local]
                while work:
                    l = work.pop()
                    if l in flag_locals:
                        continue
                    flag_locals.add(l)
                    for kind, dbb, idx, node in d.of(l):
                        if kind == 'assign' and node.rv.kind in ('use', 'un') and node.rv.ops and node.rv.ops[0].place is not None and node.rv.ops[0].place.is_local():
                            work.append(node.rv.ops[0].place.local)
    # locals copied *from* the flag (e.g. `_x = copy flag; switch _x`, or `!flag`)
    changed = True
    negated = set()
    while changed:
        changed = False
        for bl in b.blocks:
            for st in bl.stmts:
                if st.kind == 'a' and st.place.is_local() and st.place.local not in flag_locals and st.rv.kind in ('use', 'un') and st.rv.ops \
                        and st.rv.ops[0].place is not None and st.rv.ops[0].place.is_local() and st.rv.ops[0].place.local in flag_locals:
                    flag_locals.add(st.place.local)
                    if st.rv.kind == 'un':
                        negated.add(st.place.local)
                    changed = True
    ex_bb = execs[0][0]
    removed = set()
    for bl in b.blocks:
        t = bl.term
        if t.kind == "switch" and t.discr.place is not None and t.discr.place.is_local() and t.discr.place.local in flag_locals \
                and bl.idx in c.reachable_after(ex_bb):
            f, tr = bool_edges(t)
            cur = f if t.discr.place.local in negated else tr      # the edge on which the stage ran in the current shell
            removed.add((bl.idx, cur))
    errs = set(c.error_exit_blocks())
    for bl in b.blocks:
        for st in bl.stmts:
            if st.kind == 'a' and st.place.is_local() and st.place.local == 0 and st.rv.kind == 'agg' and st.rv.variant == "Err":
                errs.add(bl.idx)
    seen = set()
    stack = [s for s in c.succ[ex_bb]]
    prev = {}
    while stack:
        x = stack.pop()
        if x in seen:
            continue
        seen.add(x)
        for sx in c.succ[x]:
            if (x, sx) in removed or sx in seen:
                continue
            # do not walk round the loop into the next stage's execution
            if sx == ex_bb:
                continue
            prev[sx] = x
            stack.append(sx)
    # error exits that belong to *later* statements of the same iteration are legitimate only if they do not stem from the stage's
    # result: restrict to error exits whose residual derives from the execute_in_pipeline future
    from dataflow import forward_taint
    tl = forward_taint(b, {execs[0][1].dest.local})
    bad = []
    for e in sorted(errs & seen):
        t = b.blocks[e].term
        ops = list(t.args) if t.kind == "call" else []
        for st in b.blocks[e].stmts:
            if st.kind == 'a':
                ops += st.rv.ops
        if any(o.place is not None and o.place.local in tl for o in ops):
            bad.append(e)
    if bad:
        chk.fail("R12.6", fn, "stage-error-escapes-subshell",
                 "an error returned by a pipeline stage is propagated out of spawn_pipeline_processes (error exit at line %s) although the stage ran in its own "
                 "subshell: `set -u; echo \"${c}\" | cat; echo after` ends the whole script instead of failing the stage" % b.blocks[bad[0]].term.line)
    else:
        chk.ok("R12.6", "stage-errors-contained", "error exits fed by the stage's result are reachable only on the current-shell edge (%d flag tests after the call)" % len(removed), function=fn)


JOB_RESULT_SOURCES = ("brush_core::jobs::Job::wait", "brush_core::jobs::JobTask::wait", "brush_core::jobs::JobManager::wait_all",
                      "brush_core::jobs::Job::poll", "brush_core::jobs::JobTask::poll")


def job_result_reduction_rule(prog, chk):
    """R12.8: what a background job (a clone running as a task) did comes back to the shell that waits for it as an exit status only.
    A function that obtains a job's ExecutionResult (Job::wait, JobTask::wait, wait_all …) and returns an ExecutionResult of its own
    must not return the job's value as it is — its control flow (`exit`, `return`) would be carried out by the waiting shell."""
    from dataflow import flow_back
    chk.rule("R12.8", "a job's ExecutionResult never becomes the result of the function that waited for it except through its exit_code: "
                      "`{ exit 3; } & wait %1` must not end the waiting shell")
    n = 0
    for b in prog.all_bodies(SHIPPED):
        srcs = [(bb, t) for bb, t in b.calls() if (t.best_callee() or "") in JOB_RESULT_SOURCES]
        if not srcs or "ExecutionResult" not in b.ret:
            continue
        fn = owner(b.name)
        if fn.startswith("brush_core::jobs::"):
            continue        # the job layer itself hands the value on
        n += 1
        d = defs_of(b)
        bad = None
        for bl in b.blocks:
            for st in bl.stmts:
                if st.kind == 'a' and st.place.is_local() and st.place.local == 0 and st.rv.kind == 'agg' and st.rv.variant == "Ok" and st.rv.ops:
                    for f in flow_back(b, d, st.rv.ops[0], all_args=False):
                        if any(v in JOB_RESULT_SOURCES for v in f.via) and "exit_code" not in f.field_path() \
                                and not any(v.endswith(("From<brush_core::results::ExecutionExitCode>>::from", "ExecutionResult::new")) for v in f.via):
                            bad = st
        if bad is not None:
            chk.fail("R12.8", fn, "job-result-returned-with-control-flow",
                     "%s returns the ExecutionResult it got from a job as its own result: an `exit` or errexit failure inside the background job is then carried "
                     "out by the waiting shell — `{ sleep 0; exit 3; } & wait %%+; echo alive` never prints" % fn)
        else:
            chk.ok("R12.8", "job-result-reduced@" + short_fn(fn), "job results do not reach the return value with their control flow", function=fn)
    chk.floor("R12.8", "functions that wait for jobs and return an ExecutionResult", n, 1)


def short_fn(fn):
    return fn.split(" as ")[0].lstrip("<").rsplit("::", 1)[-1] if " as " in fn else fn.rsplit("::", 1)[-1]


def nested_subshell_grammar_rule(prog, chk):
    """R12.9 (grammar, read from brush-parser/src/parser/peg.rs on every run): `( ( cmd ) )` is a subshell inside a subshell. The
    arithmetic command `(( expr ))` may only start at two *adjacent* `(` tokens; a rule that accepts any two `(` operator tokens turns
    `( ( x=changed ) )` into the arithmetic command `((x=changed))`, evaluated in the invoking shell: the assignment meant for a
    subshell lands in the parent (and `( ( echo hi ) )` is an arithmetic syntax error)."""
    import os
    import peg
    from extract import REPO
    chk.rule("R12.9", "grammar: the arithmetic command opens with two adjacent `(` tokens (a contiguity test on their locations); `( (` opens nested subshells")
    path = os.path.join(REPO, "brush-parser/src/parser/peg.rs")
    try:
        G = list(peg.load(path).values())[0]
    except (OSError, IndexError):
        G = None
    if not G or "arithmetic_command" not in G:
        chk.fail("R12.9", "brush_parser::parser::peg", "grammar-missing", "rule arithmetic_command not found in %s" % path, nontrivial=False)
        return

    def mentions_contiguity(rule, seen=()):
        if rule not in G or rule in seen:
            return False
        txt = " ".join(t.text for t in G[rule])
        if "locations_are_contiguous" in txt or ("end" in txt and "start" in txt and "index" in txt and "==" in txt):
            return True
        for alt in peg.split_alternatives(G[rule]):
            for e in peg.elements(alt):
                if e["kind"] == "call" and e["text"] != rule and e["text"].startswith("arithmetic") and mentions_contiguity(e["text"], seen + (rule,)):
                    return True
        return False

    n = 0
    for alt in peg.split_alternatives(G["arithmetic_command"]):
        els = [e for e in peg.elements(alt) if e["kind"] != "action"]
        if not els:
            continue
        n += 1

        def is_open(e):
            return e["kind"] == "call" and e["text"] == "specific_operator" and "".join(t.text for t in e.get("args", [])).strip('"') == "("
        if len(els) >= 2 and is_open(els[0]) and is_open(els[1]):
            chk.fail("R12.9", "brush_parser::parser::peg::arithmetic_command", "arithmetic-command-accepts-separated-parens",
                     "arithmetic_command starts with two independent `(` operator tokens (line %s), adjacent or not: `( ( x=changed ) )` is parsed as `((x=changed))` and "
                     "runs in the invoking shell — the parent's x becomes 0; `( ( echo hi ) )` is a syntax error (bash: nested subshells)" % (alt[0].line if alt else "?"))
        elif els[0]["kind"] == "call" and mentions_contiguity(els[0]["text"]):
            chk.ok("R12.9", "arithmetic-open-is-adjacent", "the opening goes through %s, which tests the two locations for contiguity" % els[0]["text"],
                   function="brush_parser::parser::peg::arithmetic_command")
        elif "locations_are_contiguous" in " ".join(t.text for t in alt):
            chk.ok("R12.9", "arithmetic-open-is-adjacent", "contiguity tested in the alternative itself", function="brush_parser::parser::peg::arithmetic_command")
        else:
            chk.fail("R12.9", "brush_parser::parser::peg::arithmetic_command", "arithmetic-open-unrecognised",
                     "cannot see how arithmetic_command recognises its opening `((` (first element %s)" % els[0]["text"], nontrivial=False)
    chk.floor("R12.9", "arithmetic_command alternatives", n, 1)
