"""C02 — control flow of compound commands (DESIGN §3 C02): the break/continue/return/exit
protocol is present in every construct on every path."""
from rulelib import (SHIPPED, arm_regions, bool_edges, call_sites, cfg_of, defs_of, enum_switches, owner,
                     resolve_bool_arm, switches_on_call)
from dataflow import const_value, field_stores, origins, rvalue_origins
from facts import canon

EXEC = "brush_core::interp::Execute::execute"
ER = "brush_core::results::ExecutionResult"
ECF = "brush_core::results::ExecutionControlFlow"
DECR = ECF + "::try_decrement_loop_levels"

SEQ_EXECUTORS = [
    "<brush_parser::ast::Program as brush_core::interp::Execute>::execute",
    "<brush_parser::ast::CompoundList as brush_core::interp::Execute>::execute",
    "<brush_parser::ast::AndOrList as brush_core::interp::Execute>::execute",
    "<brush_parser::ast::CaseClauseCommand as brush_core::interp::Execute>::execute",
]


def _exec_calls(b):
    c = cfg_of(b)
    return [(bb, t) for bb, t in b.calls() if bb in c.reach and t.callee == EXEC]


def _recv_fields(b, t):
    d = defs_of(b)
    fs = set()
    for o in origins(b, d, t.args[0]):
        for p in o.path:
            if p[0] == 'f':
                fs.add((canon(p[2]), p[3]))
    return fs


def _decr_store_blocks(b):
    """blocks that store the result of try_decrement_loop_levels into a next_control_flow field"""
    d = defs_of(b)
    out = []
    for bb, i, s in field_stores(b, "results::ExecutionResult", "next_control_flow"):
        for o in rvalue_origins(b, d, s):
            if o.kind == 'call' and o.node.best_callee() == DECR:
                out.append(bb)
    # call with destination directly into the field
    for bb, t in b.calls():
        if t.best_callee() == DECR and t.dest is not None and t.dest.field_names()[-1:] == ["next_control_flow"]:
            out.append(bb)
    return out


def run(prog, chk):
    chk.explanation = (
        "Sibling/protocol rules on the MIR CFGs of the loop and sequence executors: every loop executor consults "
        "is_return_or_exit (leaving the loop), stores try_decrement_loop_levels back on every path that continues or leaves by "
        "break/continue, and only iterates again past the false edges of is_break and is_continue; while/until decrements once when "
        "the condition itself yields break/continue; sequence executors test is_normal_flow between consecutive children and their "
        "loops have no other exits (and-or short-circuit skips, never breaks); function / sourced-script boundaries consume `return`; "
        "break/continue never leave a function; a subshell returns only its exit code. Not decided: equality of traces and $? with bash; "
        "the levels-1 arithmetic.")
    chk.assumptions = ["rustc MIR", "await = awaited call"]

    # ---- R2.1 loop protocol ----------------------------------------------------------------------------
    chk.rule("R2.1", "every loop executor (role: a loop that executes a DoGroupCommand.list) implements the full control-flow protocol")
    loops_found = 0
    for b in prog.all_bodies({"brush_core"}):
        ecs = _exec_calls(b)
        if not ecs:
            continue
        c = cfg_of(b)
        sl = c.source_loops()
        body_calls = [(bb, t) for bb, t in ecs if ("brush_parser::ast::DoGroupCommand", "list") in _recv_fields(b, t)
                      and any(bb in blks for blks in sl.values())]
        if not body_calls:
            continue
        fn = owner(b.name)
        loops_found += 1
        d = defs_of(b)
        for ebb, et in body_calls:
            h = [hh for hh, blks in sl.items() if ebb in blks]
            # innermost loop containing the call
            h.sort(key=lambda x: len(sl[x]))
            h = h[0]
            blks = sl[h]
            rets = c.return_blocks()
            errs = c.error_exit_blocks()
            # (a) is_return_or_exit consulted after the body, true edge leaves the loop
            roe = [(sbb, st) for sbb, st, _ in switches_on_call(b, ["ExecutionResult::is_return_or_exit"]) if sbb in blks and sbb in c.reachable_after(ebb, avoid=[h])]
            roe_true = []
            if not roe:
                chk.fail("R2.1", fn, "no-return-or-exit-test", "%s: the loop does not consult is_return_or_exit after running its body: `return`/`exit` inside the loop keeps iterating" % fn)
            else:
                ok = True
                for sbb, st in roe:
                    f, t_ = bool_edges(st)
                    roe_true.append(t_)
                    if h in c.reachable_from(t_, avoid=[]) and c.path(t_, [h], avoid=set(range(c.n)) - blks) is not None:
                        ok = False
                if ok:
                    chk.ok("R2.1", "return-or-exit-leaves:" + fn, "is_return_or_exit true edge leaves the loop", function=fn)
                else:
                    chk.fail("R2.1", fn, "return-or-exit-stays", "%s: the true edge of is_return_or_exit can reach the loop head again" % fn)
            # (b) decrement stored on every other path
            dec = _decr_store_blocks(b)
            if not dec:
                chk.fail("R2.1", fn, "no-decrement", "%s never stores try_decrement_loop_levels() back: `break N` / `continue N` levels are not consumed by this loop" % fn)
            else:
                p = c.escapes(ebb, dec, rets + [h], after=True, avoid=set(errs) | set(roe_true))
                if p is not None:
                    chk.fail("R2.1", fn, "path-without-decrement",
                             "%s: a path from the body execution (line %s) continues/leaves without try_decrement_loop_levels: blocks %s" % (fn, et.line, p),
                             detail={"path_blocks": p})
                else:
                    chk.ok("R2.1", "decrement-on-all-paths:" + fn, "every non-return/exit path stores the decremented control flow", function=fn)
            # (c) back edge only past !is_break and !is_continue
            for name in ("is_break", "is_continue"):
                sws = [(sbb, st) for sbb, st, _ in switches_on_call(b, ["ExecutionResult::" + name]) if sbb in blks]
                if not sws:
                    chk.fail("R2.1", fn, "no-%s-test" % name, "%s: the loop does not consult %s" % (fn, name))
                    continue
                sbb, st = sws[0]
                f, t_ = bool_edges(st)
                stays = c.path(t_, [h], avoid=set(range(c.n)) - blks)
                p = c.escapes(ebb, [x for x, _ in sws], [h], after=True, avoid=set(errs) | set(roe_true))
                if stays is not None:
                    chk.fail("R2.1", fn, "%s-true-iterates" % name, "%s: the true edge of %s leads back to the loop head" % (fn, name))
                elif p is not None:
                    chk.fail("R2.1", fn, "iterates-without-%s-test" % name, "%s: a path from the body to the next iteration skips the %s test: %s" % (fn, name, p))
                else:
                    chk.ok("R2.1", "%s-guards-back-edge:%s" % (name, fn), "next iteration only via the false edge of %s" % name, function=fn)
            # is_break must be read before the decrement (a decremented BreakLoop{1} becomes Normal)
            isb = [(x, tt) for x, tt in b.calls() if tt.best_callee() == ER + "::is_break" and x in blks]
            if isb and dec:
                if all(c.dominates(isb[0][0], dd) for dd in dec if dd in blks):
                    chk.ok("R2.1", "is_break-before-decrement:" + fn, "is_break is sampled before the levels are decremented", function=fn)
                else:
                    chk.fail("R2.1", fn, "is_break-after-decrement", "%s reads is_break after decrementing: `break` (1 level) is seen as Normal and the loop continues" % fn)
        # (d) while/until: condition's non-normal flow decrements once
        cond_calls = [(bb, t) for bb, t in ecs if ("brush_parser::ast::WhileOrUntilClauseCommand", "0") in _recv_fields(b, t)]
        for cbb, ct in cond_calls:
            dec = _decr_store_blocks(b)
            nf = [(sbb, st) for sbb, st, oc in switches_on_call(b, ["ExecutionResult::is_normal_flow"]) if sbb in c.reachable_after(cbb)
                  and all(sbb not in c.reachable_after(e) or c.dominates(cbb, sbb) and not any(c.dominates(e, sbb) for e, _ in body_calls) for e, _ in body_calls)]
            if not nf:
                chk.fail("R2.1", fn, "condition-flow-not-tested", "%s does not test is_normal_flow on the loop condition's result" % fn)
                continue
            sbb, st = nf[0]
            f, t_ = bool_edges(st)
            p = c.escapes(sbb, dec, c.return_blocks(), after=False, avoid=[t_] + c.error_exit_blocks())
            if p is not None:
                chk.fail("R2.1", fn, "condition-break-not-decremented",
                         "%s: when the condition yields break/continue the loop leaves without consuming one level: %s" % (fn, p))
            else:
                chk.ok("R2.1", "condition-flow-decrements:" + fn, "non-normal condition flow is decremented once before leaving", function=fn)
    chk.floor("R2.1", "loop executors", loops_found, 3)

    # ---- R2.2 sequence stop ------------------------------------------------------------------------------
    chk.rule("R2.2", "sequence executors: between two consecutive child executions a test of is_normal_flow is passed whose non-normal "
                     "edge leaves the loop; the loop's exits are only {exhaustion, non-normal flow, error}; post-actions of case")
    for fn in SEQ_EXECUTORS:
        b = prog.impl_body(fn)
        if not chk.anchor("R2.2", fn, b):
            continue
        c = cfg_of(b)
        sl = c.source_loops()
        ecs = _exec_calls(b)
        in_loop = [(bb, t) for bb, t in ecs if any(bb in blks for blks in sl.values())]
        if not in_loop:
            chk.fail("R2.2", fn, "no-child-exec-in-loop", "no child execute call inside a loop in %s" % fn)
            continue
        # N.B. only is_normal_flow stops the sequence for *every* pending control flow; is_return_or_exit
        # would let break/continue run the next child (seeded change C02-case-fallthrough)
        nf = switches_on_call(b, ["ExecutionResult::is_normal_flow"])
        nfb = [x for x, _, _ in nf]
        if not nfb:
            weaker = switches_on_call(b, ["ExecutionResult::is_return_or_exit"])
            chk.fail("R2.2", fn, "no-normal-flow-test", "%s never tests is_normal_flow%s: break/continue raised by a child do not stop the sequence"
                     % (fn, " (only is_return_or_exit, which ignores pending break/continue)" if weaker else ""))
            continue
        bad = None
        for xbb, xt in ecs:
            for ybb, yt in in_loop:
                p = c.path(xbb, [ybb], avoid=set(nfb) | set(c.error_exit_blocks()), after=True)
                if p is not None:
                    bad = (xt.line, yt.line, p)
        if bad:
            chk.fail("R2.2", fn, "child-to-child-without-flow-test",
                     "%s: from the child executed at line %s the next child (line %s) is reachable without testing is_normal_flow: %s" % ((fn,) + bad))
        else:
            chk.ok("R2.2", "flow-test-between-children:" + fn, "%d child execute sites; every child→child path passes the flow test" % len(ecs), function=fn)
        # non-normal edge leaves
        for sbb, st, oc in nf:
            f, t_ = bool_edges(st)
            nonnormal = f if oc.best_callee().endswith("is_normal_flow") else t_
            if any(ybb in c.reachable_from(nonnormal) for ybb, _ in in_loop):
                chk.fail("R2.2", fn, "non-normal-edge-continues", "%s: after a non-normal result another child can still be executed" % fn)
            else:
                chk.ok("R2.2", "non-normal-leaves:%s" % fn, "the non-normal edge cannot reach another child execution", function=fn)
        # and-or: short-circuit skips (stays in the loop), never breaks
        if fn.startswith("<brush_parser::ast::AndOrList"):
            for h, blks in sl.items():
                if not any(bb in blks for bb, _ in in_loop):
                    continue
                scs = [(sbb, st) for sbb, st, _ in switches_on_call(b, ["ExecutionResult::is_success"]) if sbb in blks]
                if len(scs) < 2:
                    chk.fail("R2.2", fn, "short-circuit-tests", "expected is_success tests for && and || in the and-or loop, found %d" % len(scs))
                for sbb, st in scs:
                    outs = [x for x in c.succ[sbb] if x not in blks]
                    if outs:
                        chk.fail("R2.2", fn, "short-circuit-breaks", "%s: a short-circuit edge (is_success test, line %s) leaves the and-or loop instead of skipping to the next operand" % (fn, st.line))
                    else:
                        chk.ok("R2.2", "short-circuit-skips@%s" % st.line, "both edges of the is_success test stay in the loop", function=fn)
    # case post-action table
    cb = prog.impl_body(SEQ_EXECUTORS[3])
    if cb is not None:
        sw = enum_switches(prog, cb, "brush_parser::ast::CaseItemPostAction")
        if not sw:
            chk.fail("R2.2", SEQ_EXECUTORS[3], "post-action-switch-missing", "no switch on CaseItemPostAction")
        else:
            sbb, m, other, rest, _ = sw[0]
            c = cfg_of(cb)
            targets = dict(m)
            for r in rest:
                targets[r] = other
            sl = c.source_loops()
            hs = [h for h, blks in sl.items() if sbb in blks]
            h = hs[0] if hs else None
            stores = field_stores(cb, "", "")  # unused
            res = {}
            for name, tgt in targets.items():
                back = h is not None and c.path(tgt, [h], avoid=set(range(c.n)) - sl[h]) is not None
                res[name] = back
            want = {"ExitCase": False, "UnconditionallyExecuteNextCaseItem": True, "ContinueEvaluatingCases": True}
            for name, back in res.items():
                if want.get(name) is None:
                    continue
                if want[name] == back:
                    chk.ok("R2.2", "case-post:" + name, "%s %s the case loop" % (name, "continues" if back else "leaves"), function=SEQ_EXECUTORS[3])
                else:
                    chk.fail("R2.2", SEQ_EXECUTORS[3], "case-post:" + name, "`%s` arm %s the case loop (expected the opposite)" % (name, "continues" if back else "leaves"))

    # ---- R2.3 boundaries ---------------------------------------------------------------------------------
    chk.rule("R2.3", "function and sourced-script boundaries consume `return`; break/continue do not escape a function; a subshell "
                     "returns only From<ExecutionExitCode>")
    for fn, need_loop_arm in (("brush_core::commands::invoke_shell_function", True),
                              ("brush_core::shell::Shell::parse_and_execute_script_file", False)):
        b = prog.impl_body(fn)
        if not chk.anchor("R2.3", fn, b):
            continue
        c = cfg_of(b)
        d = defs_of(b)
        sws = enum_switches(prog, b, ECF)
        if not sws:
            chk.fail("R2.3", fn, "no-control-flow-switch", "%s no longer inspects next_control_flow at its boundary" % fn)
            continue
        sbb, m, other, rest, _ = sws[-1]
        normal_stores = []
        for bb, i, s in field_stores(b, "results::ExecutionResult", "next_control_flow"):
            if s.rv.kind == 'agg' and s.rv.variant == "Normal":
                normal_stores.append(bb)
            else:
                for o in rvalue_origins(b, d, s):
                    if o.kind == 'agg' and o.node.variant == "Normal":
                        normal_stores.append(bb)
        tgt = m.get("ReturnFromFunctionOrScript")
        if tgt is not None:
            tgt = resolve_bool_arm(b, tgt)
        oks = [bl.idx for bl in b.blocks for s in bl.stmts if s.kind == 'a' and s.place.is_local() and s.place.local == 0
               and s.rv.kind == 'agg' and s.rv.variant == "Ok"]
        if tgt is None:
            chk.fail("R2.3", fn, "return-arm-missing", "no ReturnFromFunctionOrScript arm")
        else:
            p = c.escapes(tgt, normal_stores, oks, after=False)
            if p is not None:
                chk.fail("R2.3", fn, "return-not-consumed", "%s: `return` leaves the boundary unconsumed (path %s without next_control_flow = Normal)" % (fn, p))
            else:
                chk.ok("R2.3", "return-consumed:" + fn, "ReturnFromFunctionOrScript arm stores Normal before Ok", function=fn)
        if need_loop_arm:
            for v in ("BreakLoop", "ContinueLoop"):
                t2 = m.get(v)
                if t2 is None:
                    chk.fail("R2.3", fn, "loop-arm-missing:" + v, "no %s arm at the function boundary" % v)
                elif any(x in c.reachable_from(t2) for x in oks):
                    chk.fail("R2.3", fn, "loop-flow-escapes-function:" + v, "%s: %s is returned unchanged from a function call" % (fn, v))
                else:
                    chk.ok("R2.3", "%s-stopped:%s" % (v, fn), "%s cannot be returned from the function boundary" % v, function=fn)
    # subshell
    fn = "<brush_parser::ast::CompoundCommand as brush_core::interp::Execute>::execute"
    b = prog.impl_body(fn)
    if chk.anchor("R2.3", fn, b):
        c = cfg_of(b)
        d = defs_of(b)
        clones = [bb for bb, t in b.calls() if t.callee == "core::clone::Clone::clone" and t.self_ty and "shell::Shell" in t.self_ty]
        if not clones:
            chk.fail("R2.3", fn, "subshell-clone-missing", "Subshell arm no longer clones the shell")
        else:
            cl = clones[0]
            n = 0
            for bl in b.blocks:
                if bl.cleanup or bl.idx not in c.reach or not c.dominates(cl, bl.idx):
                    continue
                for st in bl.stmts:
                    if st.kind == 'a' and st.rv.kind == 'agg' and st.rv.adt == "core::result::Result" and st.rv.variant == "Ok":
                        n += 1
                        srcs = origins(b, d, st.rv.ops[0], transparent=set())
                        good = all(o.kind == 'call' and o.node.callee == "core::convert::From::from" and "ExecutionExitCode" in (o.node.gen_args or "")
                                   and (o.node.self_ty or "").endswith("ExecutionResult") for o in srcs)
                        if good and srcs:
                            chk.ok("R2.3", "subshell-returns-exit-code-only", "Ok(ExecutionResult::from(exit_code))", function=fn)
                        else:
                            chk.fail("R2.3", fn, "subshell-leaks-control-flow", "the Subshell arm returns %s: control flow (break/return/exit) escapes the subshell" % [repr(o)[:80] for o in srcs])
            if n == 0:
                chk.fail("R2.3", fn, "subshell-ok-missing", "no Ok(..) return found in the Subshell arm")
