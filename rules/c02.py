"""C02 — control flow of compound commands (DESIGN §3 C02): the break/continue/return/exit
protocol is present in every construct on every path."""
from rulelib import (SHIPPED, arm_regions, bool_edges, call_sites, cfg_of, defs_of, enum_switches, owner,
                     resolve_bool_arm, switches_on_call)
from dataflow import const_value, field_stores, origins, rvalue_origins
from facts import canon

EXEC = "brush_core::interp::Execute::execute"
ER = "brush_core::results::ExecutionResult"
ECF = "brush_core::results::ExecutionControlFlow"
DECR = ECF + "::try_decrement_loop_levels"

SEQ_EXECUTORS = [
    "<brush_parser::ast::Program as brush_core::interp::Execute>::execute",
    "<brush_parser::ast::CompoundList as brush_core::interp::Execute>::execute",
    "<brush_parser::ast::AndOrList as brush_core::interp::Execute>::execute",
    "<brush_parser::ast::CaseClauseCommand as brush_core::interp::Execute>::execute",
]


def _exec_calls(b):
    c = cfg_of(b)
    return [(bb, t) for bb, t in b.calls() if bb in c.reach and t.callee == EXEC]


def _recv_fields(b, t):
    d = defs_of(b)
    fs = set()
    for o in origins(b, d, t.args[0]):
        for p in o.path:
            if p[0] == 'f':
                fs.add((canon(p[2]), p[3]))
    return fs


def _decr_store_blocks(b):
    """blocks that store the result of try_decrement_loop_levels into a next_control_flow field"""
    d = defs_of(b)
    out = []
    for bb, i, s in field_stores(b, "results::ExecutionResult", "next_control_flow"):
        for o in rvalue_origins(b, d, s):
            if o.kind == 'call' and o.node.best_callee() == DECR:
                out.append(bb)
    # call with destination directly into the field
    for bb, t in b.calls():
        if t.best_callee() == DECR and t.dest is not None and t.dest.field_names()[-1:] == ["next_control_flow"]:
            out.append(bb)
    return out


def run(prog, chk):
    chk.explanation = (
        "Sibling/protocol rules on the MIR CFGs of the loop and sequence executors: every loop executor consults "
        "is_return_or_exit (leaving the loop), stores try_decrement_loop_levels back on every path that continues or leaves by "
        "break/continue, and only iterates again past the false edges of is_break and is_continue; while/until decrements once when "
        "the condition itself yields break/continue; sequence executors test is_normal_flow between consecutive children and their "
        "loops have no other exits (and-or short-circuit skips, never breaks); function / sourced-script boundaries consume `return`; "
        "break/continue never leave a function; a subshell returns only its exit code. Not decided: equality of traces and $? with bash; "
        "the levels-1 arithmetic.")
    chk.assumptions = ["rustc MIR", "await = awaited call"]

    # ---- R2.1 loop protocol ----------------------------------------------------------------------------
    chk.rule("R2.1", "every loop executor (role: a loop that executes a DoGroupCommand.list) implements the full control-flow protocol")
    loops_found = 0
    for b in prog.all_bodies({"brush_core"}):
        ecs = _exec_calls(b)
        if not ecs:
            continue
        c = cfg_of(b)
        sl = c.source_loops()
        body_calls = [(bb, t) for bb, t in ecs if ("brush_parser::ast::DoGroupCommand", "list") in _recv_fields(b, t)
                      and any(bb in blks for blks in sl.values())]
        if not body_calls:
            continue
        fn = owner(b.name)
        loops_found += 1
        d = defs_of(b)
        for ebb, et in body_calls:
            h = [hh for hh, blks in sl.items() if ebb in blks]
            # innermost loop containing the call
            h.sort(key=lambda x: len(sl[x]))
            h = h[0]
            blks = sl[h]
            rets = c.return_blocks()
            errs = c.error_exit_blocks()
            # (a) is_return_or_exit consulted after the body, true edge leaves the loop
            roe = [(sbb, st) for sbb, st, _ in switches_on_call(b, ["ExecutionResult::is_return_or_exit"]) if sbb in blks and sbb in c.reachable_after(ebb, avoid=[h])]
            roe_true = []
            if not roe:
                chk.fail("R2.1", fn, "no-return-or-exit-test", "%s: the loop does not consult is_return_or_exit after running its body: `return`/`exit` inside the loop keeps iterating" % fn)
            else:
                ok = True
                for sbb, st in roe:
                    f, t_ = bool_edges(st)
                    roe_true.append(t_)
                    if h in c.reachable_from(t_, avoid=[]) and c.path(t_, [h], avoid=set(range(c.n)) - blks) is not None:
                        ok = False
                if ok:
                    chk.ok("R2.1", "return-or-exit-leaves:" + fn, "is_return_or_exit true edge leaves the loop", function=fn)
                else:
                    chk.fail("R2.1", fn, "return-or-exit-stays", "%s: the true edge of is_return_or_exit can reach the loop head again" % fn)
            # (b) decrement stored on every other path
            dec = _decr_store_blocks(b)
            if not dec:
                chk.fail("R2.1", fn, "no-decrement", "%s never stores try_decrement_loop_levels() back: `break N` / `continue N` levels are not consumed by this loop" % fn)
            else:
                p = c.escapes(ebb, dec, rets + [h], after=True, avoid=set(errs) | set(roe_true))
                if p is not None:
                    chk.fail("R2.1", fn, "path-without-decrement",
                             "%s: a path from the body execution (line %s) continues/leaves without try_decrement_loop_levels: blocks %s" % (fn, et.line, p),
                             detail={"path_blocks": p})
                else:
                    chk.ok("R2.1", "decrement-on-all-paths:" + fn, "every non-return/exit path stores the decremented control flow", function=fn)
            # (c) back edge only past !is_break and !is_continue
            for name in ("is_break", "is_continue"):
                sws = [(sbb, st) for sbb, st, _ in switches_on_call(b, ["ExecutionResult::" + name]) if sbb in blks]
                if not sws:
                    chk.fail("R2.1", fn, "no-%s-test" % name, "%s: the loop does not consult %s" % (fn, name))
                    continue
                sbb, st = sws[0]
                f, t_ = bool_edges(st)
                stays = c.path(t_, [h], avoid=set(range(c.n)) - blks)
                p = c.escapes(ebb, [x for x, _ in sws], [h], after=True, avoid=set(errs) | set(roe_true))
                if stays is not None:
                    chk.fail("R2.1", fn, "%s-true-iterates" % name, "%s: the true edge of %s leads back to the loop head" % (fn, name))
                elif p is not None:
                    chk.fail("R2.1", fn, "iterates-without-%s-test" % name, "%s: a path from the body to the next iteration skips the %s test: %s" % (fn, name, p))
                else:
                    chk.ok("R2.1", "%s-guards-back-edge:%s" % (name, fn), "next iteration only via the false edge of %s" % name, function=fn)
            # is_break must be read before the decrement (a decremented BreakLoop{1} becomes Normal)
            isb = [(x, tt) for x, tt in b.calls() if tt.best_callee() == ER + "::is_break" and x in blks]
            if isb and dec:
                if all(c.dominates(isb[0][0], dd) for dd in dec if dd in blks):
                    chk.ok("R2.1", "is_break-before-decrement:" + fn, "is_break is sampled before the levels are decremented", function=fn)
                else:
                    chk.fail("R2.1", fn, "is_break-after-decrement", "%s reads is_break after decrementing: `break` (1 level) is seen as Normal and the loop continues" % fn)
        # (d) while/until: condition's non-normal flow decrements once
        cond_calls = [(bb, t) for bb, t in ecs if ("brush_parser::ast::WhileOrUntilClauseCommand", "0") in _recv_fields(b, t)]
        for cbb, ct in cond_calls:
            dec = _decr_store_blocks(b)
            nf = [(sbb, st) for sbb, st, oc in switches_on_call(b, ["ExecutionResult::is_normal_flow"]) if sbb in c.reachable_after(cbb)
                  and all(sbb not in c.reachable_after(e) or c.dominates(cbb, sbb) and not any(c.dominates(e, sbb) for e, _ in body_calls) for e, _ in body_calls)]
            if not nf:
                chk.fail("R2.1", fn, "condition-flow-not-tested", "%s does not test is_normal_flow on the loop condition's result" % fn)
                continue
            sbb, st = nf[0]
            f, t_ = bool_edges(st)
            p = c.escapes(sbb, dec, c.return_blocks(), after=False, avoid=[t_] + c.error_exit_blocks())
            if p is not None:
                chk.fail("R2.1", fn, "condition-break-not-decremented",
                         "%s: when the condition yields break/continue the loop leaves without consuming one level: %s" % (fn, p))
            else:
                chk.ok("R2.1", "condition-flow-decrements:" + fn, "non-normal condition flow is decremented once before leaving", function=fn)
    chk.floor("R2.1", "loop executors", loops_found, 3)

    # ---- R2.2 sequence stop ------------------------------------------------------------------------------
    chk.rule("R2.2", "sequence executors: between two consecutive child executions a test of is_normal_flow is passed whose non-normal "
                     "edge leaves the loop; the loop's exits are only {exhaustion, non-normal flow, error}; post-actions of case")
    for fn in SEQ_EXECUTORS:
        b = prog.impl_body(fn)
        if not chk.anchor("R2.2", fn, b):
            continue
        c = cfg_of(b)
        sl = c.source_loops()
        ecs = _exec_calls(b)
        in_loop = [(bb, t) for bb, t in ecs if any(bb in blks for blks in sl.values())]
        if not in_loop:
            chk.fail("R2.2", fn, "no-child-exec-in-loop", "no child execute call inside a loop in %s" % fn)
            continue
        # N.B. only is_normal_flow stops the sequence for *every* pending control flow; is_return_or_exit
        # would let break/continue run the next child (seeded change C02-case-fallthrough)
        nf = switches_on_call(b, ["ExecutionResult::is_normal_flow"])
        nfb = [x for x, _, _ in nf]
        if not nfb:
            weaker = switches_on_call(b, ["ExecutionResult::is_return_or_exit"])
            chk.fail("R2.2", fn, "no-normal-flow-test", "%s never tests is_normal_flow%s: break/continue raised by a child do not stop the sequence"
                     % (fn, " (only is_return_or_exit, which ignores pending break/continue)" if weaker else ""))
            continue
        bad = None
        for xbb, xt in ecs:
            for ybb, yt in in_loop:
                p = c.path(xbb, [ybb], avoid=set(nfb) | set(c.error_exit_blocks()), after=True)
                if p is not None:
                    bad = (xt.line, yt.line, p)
        if bad:
            chk.fail("R2.2", fn, "child-to-child-without-flow-test",
                     "%s: from the child executed at line %s the next child (line %s) is reachable without testing is_normal_flow: %s" % ((fn,) + bad))
        else:
            chk.ok("R2.2", "flow-test-between-children:" + fn, "%d child execute sites; every child→child path passes the flow test" % len(ecs), function=fn)
        # non-normal edge leaves
        for sbb, st, oc in nf:
            f, t_ = bool_edges(st)
            nonnormal = f if oc.best_callee().endswith("is_normal_flow") else t_
            if any(ybb in c.reachable_from(nonnormal) for ybb, _ in in_loop):
                chk.fail("R2.2", fn, "non-normal-edge-continues", "%s: after a non-normal result another child can still be executed" % fn)
            else:
                chk.ok("R2.2", "non-normal-leaves:%s" % fn, "the non-normal edge cannot reach another child execution", function=fn)
        # and-or: short-circuit skips (stays in the loop), never breaks
        if fn.startswith("<brush_parser::ast::AndOrList"):
            for h, blks in sl.items():
                if not any(bb in blks for bb, _ in in_loop):
                    continue
                scs = [(sbb, st) for sbb, st, _ in switches_on_call(b, ["ExecutionResult::is_success"]) if sbb in blks]
                if len(scs) < 2:
                    chk.fail("R2.2", fn, "short-circuit-tests", "expected is_success tests for && and || in the and-or loop, found %d" % len(scs))
                for sbb, st in scs:
                    outs = [x for x in c.succ[sbb] if x not in blks]
                    if outs:
                        chk.fail("R2.2", fn, "short-circuit-breaks", "%s: a short-circuit edge (is_success test, line %s) leaves the and-or loop instead of skipping to the next operand" % (fn, st.line))
                    else:
                        chk.ok("R2.2", "short-circuit-skips@%s" % st.line, "both edges of the is_success test stay in the loop", function=fn)
    # case post-action table
    cb = prog.impl_body(SEQ_EXECUTORS[3])
    if cb is not None:
        sw = enum_switches(prog, cb, "brush_parser::ast::CaseItemPostAction")
        if not sw:
            chk.fail("R2.2", SEQ_EXECUTORS[3], "post-action-switch-missing", "no switch on CaseItemPostAction")
        else:
            sbb, m, other, rest, _ = sw[0]
            c = cfg_of(cb)
            targets = dict(m)
            for r in rest:
                targets[r] = other
            sl = c.source_loops()
            hs = [h for h, blks in sl.items() if sbb in blks]
            h = hs[0] if hs else None
            stores = field_stores(cb, "", "")  # unused
            res = {}
            for name, tgt in targets.items():
                back = h is not None and c.path(tgt, [h], avoid=set(range(c.n)) - sl[h]) is not None
                res[name] = back
            want = {"ExitCase": False, "UnconditionallyExecuteNextCaseItem": True, "ContinueEvaluatingCases": True}
            for name, back in res.items():
                if want.get(name) is None:
                    continue
                if want[name] == back:
                    chk.ok("R2.2", "case-post:" + name, "%s %s the case loop" % (name, "continues" if back else "leaves"), function=SEQ_EXECUTORS[3])
                else:
                    chk.fail("R2.2", SEQ_EXECUTORS[3], "case-post:" + name, "`%s` arm %s the case loop (expected the opposite)" % (name, "continues" if back else "leaves"))

    # ---- R2.3 boundaries ---------------------------------------------------------------------------------
    chk.rule("R2.3", "function and sourced-script boundaries consume `return`; break/continue do not escape a function; a subshell "
                     "returns only From<ExecutionExitCode>")
    for fn, need_loop_arm in (("brush_core::commands::invoke_shell_function", True),
                              ("brush_core::shell::Shell::parse_and_execute_script_file", False)):
        b = prog.impl_body(fn)
        if not chk.anchor("R2.3", fn, b):
            continue
        c = cfg_of(b)
        d = defs_of(b)
        sws = enum_switches(prog, b, ECF)
        if not sws:
            chk.fail("R2.3", fn, "no-control-flow-switch", "%s no longer inspects next_control_flow at its boundary" % fn)
            continue
        sbb, m, other, rest, _ = sws[-1]
        normal_stores = []
        for bb, i, s in field_stores(b, "results::ExecutionResult", "next_control_flow"):
            if s.rv.kind == 'agg' and s.rv.variant == "Normal":
                normal_stores.append(bb)
            else:
                for o in rvalue_origins(b, d, s):
                    if o.kind == 'agg' and o.node.variant == "Normal":
                        normal_stores.append(bb)
        tgt = m.get("ReturnFromFunctionOrScript")
        if tgt is not None:
            tgt = resolve_bool_arm(b, tgt)
        oks = [bl.idx for bl in b.blocks for s in bl.stmts if s.kind == 'a' and s.place.is_local() and s.place.local == 0
               and s.rv.kind == 'agg' and s.rv.variant == "Ok"]
        if tgt is None:
            chk.fail("R2.3", fn, "return-arm-missing", "no ReturnFromFunctionOrScript arm")
        else:
            p = c.escapes(tgt, normal_stores, oks, after=False)
            if p is not None:
                chk.fail("R2.3", fn, "return-not-consumed", "%s: `return` leaves the boundary unconsumed (path %s without next_control_flow = Normal)" % (fn, p))
            else:
                chk.ok("R2.3", "return-consumed:" + fn, "ReturnFromFunctionOrScript arm stores Normal before Ok", function=fn)
        if need_loop_arm:
            for v in ("BreakLoop", "ContinueLoop"):
                t2 = m.get(v)
                if t2 is None:
                    chk.fail("R2.3", fn, "loop-arm-missing:" + v, "no %s arm at the function boundary" % v)
                elif any(x in c.reachable_from(t2) for x in oks):
                    chk.fail("R2.3", fn, "loop-flow-escapes-function:" + v, "%s: %s is returned unchanged from a function call" % (fn, v))
                else:
                    chk.ok("R2.3", "%s-stopped:%s" % (v, fn), "%s cannot be returned from the function boundary" % v, function=fn)
    # subshell
    fn = "<brush_parser::ast::CompoundCommand as brush_core::interp::Execute>::execute"
    b = prog.impl_body(fn)
    if chk.anchor("R2.3", fn, b):
        c = cfg_of(b)
        d = defs_of(b)
        clones = [bb for bb, t in b.calls() if t.callee == "core::clone::Clone::clone" and t.self_ty and "shell::Shell" in t.self_ty]
        if not clones:
            chk.fail("R2.3", fn, "subshell-clone-missing", "Subshell arm no longer clones the shell")
        else:
            cl = clones[0]
            n = 0
            for bl in b.blocks:
                if bl.cleanup or bl.idx not in c.reach or not c.dominates(cl, bl.idx):
                    continue
                for st in bl.stmts:
                    if st.kind == 'a' and st.rv.kind == 'agg' and st.rv.adt == "core::result::Result" and st.rv.variant == "Ok":
                        n += 1
                        srcs = origins(b, d, st.rv.ops[0], transparent=set())
                        good = all(o.kind == 'call' and o.node.callee == "core::convert::From::from" and "ExecutionExitCode" in (o.node.gen_args or "")
                                   and (o.node.self_ty or "").endswith("ExecutionResult") for o in srcs)
                        if good and srcs:
                            chk.ok("R2.3", "subshell-returns-exit-code-only", "Ok(ExecutionResult::from(exit_code))", function=fn)
                        else:
                            chk.fail("R2.3", fn, "subshell-leaks-control-flow", "the Subshell arm returns %s: control flow (break/return/exit) escapes the subshell" % [repr(o)[:80] for o in srcs])
            if n == 0:
                chk.fail("R2.3", fn, "subshell-ok-missing", "no Ok(..) return found in the Subshell arm")
    loop_flow_origin_rule(prog, chk)
    stage_confinement_rule(prog, chk)
    bang_rule(prog, chk)
    case_status_rule(prog, chk)
    for_in_empty_list_rule(prog, chk)


WAIT_P = "brush_core::interp::wait_for_pipeline_processes_and_update_status"
PIPE_EXEC = "<brush_parser::ast::Pipeline as brush_core::interp::Execute>::execute"


def _normal_stores(b, d):
    out = []
    for bb, i, s in field_stores(b, "results::ExecutionResult", "next_control_flow"):
        if s.rv.kind == 'agg' and s.rv.variant == "Normal":
            out.append(bb)
        else:
            for o in rvalue_origins(b, d, s):
                if o.kind == 'agg' and o.node.variant == "Normal":
                    out.append(bb)
    return out


def stage_confinement_rule(prog, chk):
    """R2.5: a pipeline stage that ran in its own subshell contributes only a status. In the function that collects the
    stages' results, the result handed back has its control flow reset to Normal on the subshell edge of a current-shell
    test (the single-command / lastpipe case keeps it). Without the reset `true | exit 4` ends the invoking script."""
    chk.rule("R2.5", "pipeline stages run in a subshell hand back an exit status only: the collected result's next_control_flow is reset to Normal "
                     "under a current-shell test inside the wait loop")
    b = prog.impl_body(WAIT_P)
    if not chk.anchor("R2.5", WAIT_P, b):
        return
    c = cfg_of(b)
    d = defs_of(b)
    loops = c.source_loops()
    resets = [bb for bb in _normal_stores(b, d) if any(bb in blks for blks in loops.values())]
    if not resets:
        chk.fail("R2.5", WAIT_P, "stage-control-flow-not-confined",
                 "the result of a completed pipeline stage is handed on with its control flow and nothing resets it for stages that ran in a subshell: "
                 "`true | exit 4` terminates the invoking script, `true | return 7` returns from the enclosing function")
        return
    ok = False
    for r in resets:
        for bl in b.blocks:
            t = bl.term
            if t.kind != "switch" or bl.idx == r or not c.dominates(bl.idx, r):
                continue
            succs = set(c.succ[bl.idx])
            on = [s for s in succs if r in c.reachable_from(s, avoid=[bl.idx])]
            off = [s for s in succs if s not in on]
            if on and off and any(bl.idx in blks and r in blks for blks in loops.values()):
                og = origins(b, d, t.discr, through_ops=True)
                if any(o.kind == 'call' for o in og) or any(o.field_path() for o in og):
                    ok = True
    if ok:
        chk.ok("R2.5", "stage-result-confined", "reset to Normal inside the wait loop, on one edge of a test (the current-shell case keeps its control flow)", function=WAIT_P)
    else:
        chk.fail("R2.5", WAIT_P, "stage-reset-unconditional", "the reset of next_control_flow in the wait loop is not under a current-shell test: a single command "
                 "`exit`/`return`/`break` would be swallowed too")


def bang_rule(prog, chk):
    """R2.6: `! cmd` inverts the status of cmd, but `! return N` / `! exit N` hand N on: the inversion store in Pipeline::execute is
    control dependent on the bang flag and on a test of the result's control flow."""
    chk.rule("R2.6", "Pipeline::execute: the exit-code inversion for `!` is under `self.bang` and under a test of the result's control flow "
                     "(return/exit keep their status)")
    b = prog.impl_body(PIPE_EXEC)
    if not chk.anchor("R2.6", PIPE_EXEC, b):
        return
    c = cfg_of(b)
    d = defs_of(b)
    inv = []
    for bb, i, s in field_stores(b, "results::ExecutionResult", "exit_code"):
        og = rvalue_origins(b, d, s)
        if any(o.kind == 'call' and "ExecutionExitCode" in (o.node.best_callee() or "") + (o.node.gen_args or "") + (o.node.self_ty or "") for o in og) or \
                any(o.kind == 'const' for o in og):
            inv.append((bb, s))
    inv = [(bb, s) for bb, s in inv if any("bang" in o.field_path() for g in b.blocks if g.term.kind == "switch" and c.dominates(g.idx, bb)
                                           for o in origins(b, d, g.term.discr, through_ops=True))]
    if not inv:
        chk.fail("R2.6", PIPE_EXEC, "inversion-store-missing", "no exit_code store under `self.bang` found in Pipeline::execute")
        return
    bb = inv[0][0]
    flow_test = False
    for g in b.blocks:
        t = g.term
        if t.kind == "switch" and c.dominates(g.idx, bb) and g.idx != bb:
            for o in origins(b, d, t.discr, through_ops=True):
                if o.kind == 'call' and (o.node.best_callee() or "").endswith(("ExecutionResult::is_return_or_exit", "ExecutionResult::is_normal_flow",
                                                                                 "ExecutionControlFlow::is_return_or_exit", "ExecutionControlFlow::is_normal_flow")):
                    flow_test = True
                if o.kind == 'op' and o.node.kind == 'discr' and "ExecutionControlFlow" in (o.node.enum or ""):
                    flow_test = True
    if flow_test:
        chk.ok("R2.6", "bang-skips-return-exit", "inversion is control dependent on bang and on the result's control flow", function=PIPE_EXEC)
    else:
        chk.fail("R2.6", PIPE_EXEC, "bang-inverts-return-status",
                 "`!` inverts the exit code without looking at the result's control flow: `f() { ! return 3; }; f` leaves 0 instead of 3, `( ! exit 3 )` gives 0")


def loop_flow_origin_rule(prog, chk):
    """R2.4: loop control flow is raised only inside a loop. The `break` / `continue` builtins construct BreakLoop / ContinueLoop; that
    construction must be control dependent on a test of the execution context (is a loop active?), not only of their own argument.
    Today there is no such test: a `break` outside any loop travels up to the program and silently ends the script."""
    chk.rule("R2.4", "break / continue raise BreakLoop / ContinueLoop only under a test that a loop is active")
    n = 0
    for b in prog.all_bodies({"brush_builtins"}):
        fn = owner(b.name)
        if not (fn.startswith("<brush_builtins::break_::BreakCommand") or fn.startswith("<brush_builtins::continue_::ContinueCommand")):
            continue
        c = cfg_of(b)
        d = defs_of(b)
        for bl in b.blocks:
            if bl.cleanup or bl.idx not in c.reach:
                continue
            for st in bl.stmts:
                if st.kind == 'a' and st.rv.kind == 'agg' and st.rv.variant in ("BreakLoop", "ContinueLoop") and "ExecutionControlFlow" in (st.rv.adt or ""):
                    n += 1
                    guarded = False
                    for g in b.blocks:
                        t = g.term
                        if t.kind == "switch" and g.idx != bl.idx and c.dominates(g.idx, bl.idx):
                            for o in origins(b, d, t.discr, through_ops=True):
                                nm = b.local_name(o.node) if o.kind == 'arg' else None
                                if (o.kind == 'arg' and nm not in ("self", None) and "which_loop" not in o.field_path()) or \
                                        (o.kind == 'call' and any(x in (o.node.best_callee() or "") for x in ("loop", "Shell::", "ExecutionContext", "ExecutionParameters"))):
                                    guarded = True
                    what = st.rv.variant
                    if guarded:
                        chk.ok("R2.4", "loop-flow-guarded:" + what, "%s is raised only under a test of the execution context" % what, function=fn)
                    else:
                        chk.fail("R2.4", fn, "loop-flow-raised-outside-loops:" + what,
                                 "%s raises %s whenever its argument is valid, whether or not a loop is active: at top level (or in a function / subshell "
                                 "body outside any loop) the sequence executors stop at the non-normal flow and the rest of the script is skipped silently — "
                                 "`break; echo after` prints nothing (bash: diagnostic, status 0, continues)" % (fn, what))
    chk.floor("R2.4", "BreakLoop/ContinueLoop constructions in the break/continue builtins", n, 2)


CASE_EXEC = "<brush_parser::ast::CaseClauseCommand as brush_core::interp::Execute>::execute"


def case_status_rule(prog, chk):
    """R2.7: the status of `case` is that of the last item run — 0 for an item without commands. Every path through a *selected*
    item (from the loop head to the item's post-action dispatch) assigns the result that is finally returned; an item that leaves
    it untouched would keep the status of an earlier `;&` / `;;&` item."""
    chk.rule("R2.7", "case: every path from the item loop's head to the post-action dispatch (;; ;& ;;&) assigns the returned result "
                     "(an item without commands yields success, it does not keep an earlier item's status)")
    b = prog.impl_body(CASE_EXEC)
    if not chk.anchor("R2.7", CASE_EXEC, b):
        return
    c = cfg_of(b)
    d = defs_of(b)
    sws = enum_switches(prog, b, "brush_parser::ast::CaseItemPostAction")
    if not sws:
        chk.fail("R2.7", CASE_EXEC, "post-action-switch-missing", "no dispatch on CaseItemPostAction found")
        return
    sbb = sws[0][0]
    loops = c.source_loops()
    heads = [h for h, blks in loops.items() if sbb in blks]
    if not heads:
        chk.fail("R2.7", CASE_EXEC, "item-loop-missing", "the post-action dispatch is not inside a loop over the case items")
        return
    head = max(heads, key=lambda h: len(loops[h]))     # outermost loop containing the dispatch = loop over items
    # the local that is returned
    res = [l for l in range(len(b.local_names)) if b.local_names[l] == "result"]
    res = [l for l in res if "ExecutionResult" in b.local_ty(l)]
    if not res:
        chk.fail("R2.7", CASE_EXEC, "result-local-missing", "no ExecutionResult local named `result`")
        return
    defs_blocks = set()
    for l in res:
        for kind, bb, idx, node in d.of(l):
            if bb in loops[head]:
                defs_blocks.add(bb)
    chk.floor("R2.7", "assignments of the returned result inside the item loop", len(defs_blocks), 1)
    p = c.path(head, [sbb], avoid=defs_blocks, after=True)
    if p is None:
        chk.ok("R2.7", "case-item-sets-status", "every path from the loop head to the post-action dispatch assigns `result` (%d assigning blocks)" % len(defs_blocks), function=CASE_EXEC)
    else:
        chk.fail("R2.7", CASE_EXEC, "case-item-keeps-earlier-status",
                 "a selected case item can reach its post-action dispatch without assigning the result (path %s): an item with no commands keeps the status of the "
                 "item that fell through into it — `case a in a) false ;& b) ;; esac; echo $?` prints 1 (bash 0)" % (p[:8],))


def for_in_empty_list_rule(prog, chk):
    """R2.8: `for x in; do …` (an `in` clause with an empty word list) runs its body zero times; only a *missing* `in` clause iterates
    over the positional parameters. In the grammar the alternative of for_clause that contains the `in` keyword must build
    `values: Some(…)`; the alternative without it builds `values: None`."""
    import os
    import re
    import peg
    chk.rule("R2.8", "grammar: the for_clause alternative with an `in` clause yields values: Some(list) even when the list is empty; only the "
                     "alternative without `in` yields None (= iterate over \"$@\")")
    repo = os.environ.get("BRUSH_REPO", "/repo")
    g = list(peg.load(os.path.join(repo, "brush-parser/src/parser/peg.rs")).values())[0]
    if "for_clause" not in g:
        chk.fail("R2.8", "brush_parser::parser::peg", "for_clause-missing", "grammar rule for_clause not found", nontrivial=False)
        return
    alts = peg.split_alternatives(g["for_clause"]) if hasattr(peg, "split_alternatives") else [g["for_clause"]]
    seen_in = seen_noin = 0
    for alt in alts:
        text = " ".join(t.text for t in alt)
        has_in = re.search(r"\b_in \( \)", text) is not None
        m = re.search(r"values : ([^,}]*)", text) or re.search(r"values ([,}])", text)
        val = m.group(1).strip() if m else "?"
        if has_in:
            seen_in += 1
            if val.startswith("Some"):
                chk.ok("R2.8", "in-clause-yields-some", "values: %s" % val[:40], function="for_clause")
            else:
                chk.fail("R2.8", "brush_parser::parser::peg::for_clause", "empty-in-list-means-positional-parameters",
                         "the for_clause alternative with an `in` clause builds `values: %s`: an empty word list becomes None, which the executor treats as "
                         "\"iterate over the positional parameters\" — `set -- a b; for x in; do echo $x; done` prints a and b (bash: nothing)" % val[:40])
        else:
            seen_noin += 1
            if val.startswith("None"):
                chk.ok("R2.8", "no-in-clause-yields-none", "values: None", function="for_clause")
            else:
                chk.fail("R2.8", "brush_parser::parser::peg::for_clause", "missing-in-clause-not-none", "the alternative without `in` builds `values: %s`" % val[:40])
    if not (seen_in and seen_noin):
        chk.fail("R2.8", "brush_parser::parser::peg::for_clause", "for_clause-alternatives", "expected one alternative with and one without `in` (found %d / %d)" % (seen_in, seen_noin), nontrivial=False)
