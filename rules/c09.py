"""C09 — scope and attributes (DESIGN §3 C09)."""
from rulelib import (SHIPPED, Summaries, call_sites, callgraph, cfg_of, defs_of, owner, pair_escapes)
from dataflow import field_stores, origins, rvalue_origins
from facts import canon

SC = "brush_core::commands::SimpleCommand"
EXEC_CMD = "brush_core::interp::execute_command"
GUARD = "brush_core::env::ScopeGuard"
ENV = "brush_core::env::ShellEnvironment"

FAMILY = [SC + "::execute", SC + "::execute_via_builtin", SC + "::execute_via_builtin_in_parent_shell",
          SC + "::execute_via_function", SC + "::execute_via_external"]
OWNED_EXEMPT = SC + "::execute_via_builtin_in_owned_shell"


def _guard_drop_blocks(b):
    out = []
    for bl in b.blocks:
        if bl.cleanup:
            continue
        t = bl.term
        if t.kind == "drop" and canon(t.ty).startswith(GUARD):
            out.append(bl.idx)
        elif t.kind == "call" and t.callee == "core::mem::drop" and t.args and t.args[0].place is not None \
                and canon(b.local_ty(t.args[0].place.local)).startswith(GUARD):
            out.append(bl.idx)
    return out


def scope_guard_rule(prog, chk, rid):
    """Command-scope pairing: ScopeGuard::new(..Command) in execute_command is released by the guard's
    Drop on every path where it is not detached; after detach() the pop is handed to
    SimpleCommand.post_execute; every dispatch path of SimpleCommand consults post_execute."""
    chk.rule(rid, "command scope: guard dropped un-detached, or detach() followed by `post_execute = Some(pop_scope closure)`; "
                  "every SimpleCommand dispatch path consults post_execute, delegates to a sibling that does, or is the "
                  "owned-shell path (shell discarded)")
    b = prog.impl_body(EXEC_CMD)
    if not chk.anchor(rid, EXEC_CMD, b):
        return
    c = cfg_of(b)
    rets = c.return_blocks()
    acq = call_sites(b, {GUARD + "::new"})
    det = [x for x, _ in call_sites(b, {GUARD + "::detach"})]
    drops = _guard_drop_blocks(b)
    chk.floor(rid, "ScopeGuard::new sites in execute_command", len(acq), 1)
    for abb, at in acq:
        p = c.escapes(abb, drops, rets, after=True, avoid=det)
        if p is not None:
            chk.fail(rid, EXEC_CMD, "guard-not-dropped", "path from ScopeGuard::new (line %s) to Return with neither drop nor detach: %s" % (at.line, p))
        else:
            chk.ok(rid, "guard-drop", "every path that does not detach drops the guard (pop_scope in Drop)", function=EXEC_CMD)
    # all guards everywhere in shipped code: who constructs one
    for gb, gbb, gt in prog.callers_of(GUARD + "::new", crates=SHIPPED):
        if owner(gb.name) != EXEC_CMD:
            gc = cfg_of(gb)
            p = gc.escapes(gbb, _guard_drop_blocks(gb), gc.return_blocks(), after=True,
                           avoid=[x for x, _ in call_sites(gb, {GUARD + "::detach"})])
            if p is not None or call_sites(gb, {GUARD + "::detach"}):
                chk.fail(rid, owner(gb.name), "guard-elsewhere", "ScopeGuard used in %s with a path that does not drop it" % owner(gb.name))
            else:
                chk.ok(rid, "guard-drop@" + owner(gb.name), "dropped on every path", function=owner(gb.name))
    # detach -> post_execute store
    stores = field_stores(b, "commands::SimpleCommand", "post_execute")
    good_store_bbs = []
    d = defs_of(b)
    for sbb, si, st in stores:
        ok = False
        for so in rvalue_origins(b, d, st):
            if so.kind == 'agg' and so.node.adt == "core::option::Option" and so.node.variant == "Some":
                for o in origins(b, d, so.node.ops[0]):
                    if o.kind == 'agg' and o.node.raw.get("ak") == "closure":
                        cb = prog.body(canon(o.node.raw["def"]))
                        if cb is not None and call_sites(cb, {ENV + "::pop_scope"}):
                            ok = True
        if ok:
            good_store_bbs.append(sbb)
    for dbb in det:
        p = c.escapes(dbb, good_store_bbs, rets, after=True)
        if p is not None:
            chk.fail(rid, EXEC_CMD, "detach-without-post_execute",
                     "after guard.detach() a path reaches Return without storing a pop_scope closure into post_execute: %s" % p)
        else:
            chk.ok(rid, "detach->post_execute", "detach() is always followed by post_execute = Some(|shell| pop_scope(Command))", function=EXEC_CMD)
    if not det:
        chk.note(rid + ":no-detach", True)

    # family rule
    n_consult = 0
    for fn in FAMILY:
        fb = prog.impl_body(fn)
        if not chk.anchor(rid, fn, fb):
            continue
        fc = cfg_of(fb)
        frets = fc.return_blocks()
        fd = defs_of(fb)
        through = []
        for bl in fb.blocks:
            if bl.cleanup or bl.idx not in fc.reach:
                continue
            t = bl.term
            # consult: discriminant read of a place ending in .post_execute in this block
            for s in bl.stmts:
                if s.kind == 'a' and s.rv.kind == 'discr' and s.rv.place.field_names()[-1:] == ["post_execute"]:
                    # the Some arm must perform an indirect call whose fn operand derives from post_execute
                    if _some_arm_calls(fb, fc, fd, bl.idx):
                        through.append(bl.idx)
                        n_consult += 1
            if t.kind == "call":
                bc = t.best_callee()
                if bc in FAMILY or bc == OWNED_EXEMPT:
                    through.append(bl.idx)
        p = fc.escapes(0, through, frets, after=False)
        if p is not None:
            errs = [x for x in p if x in set(fc.error_exit_blocks())]
            chk.fail(rid, fn, "dispatch-path-skips-post_execute",
                     "%s: a %s path reaches Return without consulting post_execute or delegating: blocks %s (line %s)"
                     % (fn, "`?`" if errs else "normal", p, fb.blocks[p[-2]].term.line if len(p) > 1 else "?"), detail={"path_blocks": p})
        else:
            chk.ok(rid, "dispatch:" + fn, "every path consults post_execute / delegates (%d gate blocks)" % len(through), function=fn)
    chk.floor(rid, "post_execute consult sites", n_consult, 4)


def _some_arm_calls(fb, fc, fd, bb):
    """after the discriminant read in bb, is there an indirect call through a value derived from
    post_execute reachable?"""
    for x in fc.reachable_after(bb) | {bb}:
        t = fb.blocks[x].term
        if t.kind == "call" and t.func.place is not None:
            for o in origins(fb, fd, t.func):
                if "post_execute" in o.field_path():
                    return True
    return False


def run(prog, chk):
    chk.explanation = "C09 structural clauses (see rules/c09.py)"
    scope_guard_rule(prog, chk, "R9.2")
