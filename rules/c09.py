"""C09 — scope and attributes (DESIGN §3 C09)."""
from rulelib import (SHIPPED, Summaries, call_sites, callgraph, cfg_of, defs_of, owner, pair_escapes)
from dataflow import field_stores, origins, rvalue_origins
from facts import canon

SC = "brush_core::commands::SimpleCommand"
EXEC_CMD = "brush_core::interp::execute_command"
GUARD = "brush_core::env::ScopeGuard"
ENV = "brush_core::env::ShellEnvironment"

FAMILY = [SC + "::execute", SC + "::execute_via_builtin", SC + "::execute_via_builtin_in_parent_shell",
          SC + "::execute_via_function", SC + "::execute_via_external"]
OWNED_EXEMPT = SC + "::execute_via_builtin_in_owned_shell"


def _guard_drop_blocks(b):
    out = []
    for bl in b.blocks:
        if bl.cleanup:
            continue
        t = bl.term
        if t.kind == "drop" and canon(t.ty).startswith(GUARD):
            out.append(bl.idx)
        elif t.kind == "call" and t.callee == "core::mem::drop" and t.args and t.args[0].place is not None \
                and canon(b.local_ty(t.args[0].place.local)).startswith(GUARD):
            out.append(bl.idx)
    return out


def scope_guard_rule(prog, chk, rid):
    """Command-scope pairing: ScopeGuard::new(..Command) in execute_command is released by the guard's
    Drop on every path where it is not detached; after detach() the pop is handed to
    SimpleCommand.post_execute; every dispatch path of SimpleCommand consults post_execute."""
    chk.rule(rid, "command scope: guard dropped un-detached, or detach() followed by `post_execute = Some(pop_scope closure)`; "
                  "every SimpleCommand dispatch path consults post_execute, delegates to a sibling that does, or is the "
                  "owned-shell path (shell discarded)")
    b = prog.impl_body(EXEC_CMD)
    if not chk.anchor(rid, EXEC_CMD, b):
        return
    c = cfg_of(b)
    rets = c.return_blocks()
    acq = call_sites(b, {GUARD + "::new"})
    det = [x for x, _ in call_sites(b, {GUARD + "::detach"})]
    drops = _guard_drop_blocks(b)
    chk.floor(rid, "ScopeGuard::new sites in execute_command", len(acq), 1)
    for abb, at in acq:
        p = c.escapes(abb, drops, rets, after=True, avoid=det)
        if p is not None:
            chk.fail(rid, EXEC_CMD, "guard-not-dropped", "path from ScopeGuard::new (line %s) to Return with neither drop nor detach: %s" % (at.line, p))
        else:
            chk.ok(rid, "guard-drop", "every path that does not detach drops the guard (pop_scope in Drop)", function=EXEC_CMD)
    # all guards everywhere in shipped code: who constructs one
    for gb, gbb, gt in prog.callers_of(GUARD + "::new", crates=SHIPPED):
        if owner(gb.name) != EXEC_CMD:
            gc = cfg_of(gb)
            p = gc.escapes(gbb, _guard_drop_blocks(gb), gc.return_blocks(), after=True,
                           avoid=[x for x, _ in call_sites(gb, {GUARD + "::detach"})])
            if p is not None or call_sites(gb, {GUARD + "::detach"}):
                chk.fail(rid, owner(gb.name), "guard-elsewhere", "ScopeGuard used in %s with a path that does not drop it" % owner(gb.name))
            else:
                chk.ok(rid, "guard-drop@" + owner(gb.name), "dropped on every path", function=owner(gb.name))
    # detach -> post_execute store
    stores = field_stores(b, "commands::SimpleCommand", "post_execute")
    good_store_bbs = []
    d = defs_of(b)
    for sbb, si, st in stores:
        ok = False
        for so in rvalue_origins(b, d, st):
            if so.kind == 'agg' and so.node.adt == "core::option::Option" and so.node.variant == "Some":
                for o in origins(b, d, so.node.ops[0]):
                    if o.kind == 'agg' and o.node.raw.get("ak") == "closure":
                        cb = prog.body(canon(o.node.raw["def"]))
                        if cb is not None and call_sites(cb, {ENV + "::pop_scope"}):
                            ok = True
        if ok:
            good_store_bbs.append(sbb)
    for dbb in det:
        p = c.escapes(dbb, good_store_bbs, rets, after=True)
        if p is not None:
            chk.fail(rid, EXEC_CMD, "detach-without-post_execute",
                     "after guard.detach() a path reaches Return without storing a pop_scope closure into post_execute: %s" % p)
        else:
            chk.ok(rid, "detach->post_execute", "detach() is always followed by post_execute = Some(|shell| pop_scope(Command))", function=EXEC_CMD)
    if not det:
        chk.note(rid + ":no-detach", True)

    # family rule
    n_consult = 0
    for fn in FAMILY:
        fb = prog.impl_body(fn)
        if not chk.anchor(rid, fn, fb):
            continue
        fc = cfg_of(fb)
        frets = fc.return_blocks()
        fd = defs_of(fb)
        through = []
        for bl in fb.blocks:
            if bl.cleanup or bl.idx not in fc.reach:
                continue
            t = bl.term
            # consult: discriminant read of a place ending in .post_execute in this block
            for s in bl.stmts:
                if s.kind == 'a' and s.rv.kind == 'discr' and s.rv.place.field_names()[-1:] == ["post_execute"]:
                    # the Some arm must perform an indirect call whose fn operand derives from post_execute
                    if _some_arm_calls(fb, fc, fd, bl.idx):
                        through.append(bl.idx)
                        n_consult += 1
            if t.kind == "call":
                bc = t.best_callee()
                if bc in FAMILY or bc == OWNED_EXEMPT:
                    through.append(bl.idx)
        p = fc.escapes(0, through, frets, after=False)
        if p is not None:
            errs = [x for x in p if x in set(fc.error_exit_blocks())]
            chk.fail(rid, fn, "dispatch-path-skips-post_execute",
                     "%s: a %s path reaches Return without consulting post_execute or delegating: blocks %s (line %s)"
                     % (fn, "`?`" if errs else "normal", p, fb.blocks[p[-2]].term.line if len(p) > 1 else "?"), detail={"path_blocks": p})
        else:
            chk.ok(rid, "dispatch:" + fn, "every path consults post_execute / delegates (%d gate blocks)" % len(through), function=fn)
    chk.floor(rid, "post_execute consult sites", n_consult, 4)


def _some_arm_calls(fb, fc, fd, bb):
    """after the discriminant read in bb, is there an indirect call through a value derived from
    post_execute reachable?"""
    for x in fc.reachable_after(bb) | {bb}:
        t = fb.blocks[x].term
        if t.kind == "call" and t.func.place is not None:
            for o in origins(fb, fd, t.func):
                if "post_execute" in o.field_path():
                    return True
    return False


SV = "brush_core::variables::ShellVariable"
SVAL = "brush_core::variables::ShellValue"

# functions allowed to write ShellVariable.value without a readonly test (reviewed, one reason each)
VALUE_WRITE_EXEMPT = {
    SV + "::new": "constructor",
    "<" + SV + " as core::default::Default>::default": "constructor",
    SV + "::convert_to_indexed_array": "representation change only (scalar -> {0: scalar}); callers: assign_at_index after its readonly test, declare -a",
    SV + "::convert_to_associative_array": "representation change only (scalar -> {\"0\": scalar}); callers: declare -A",
}


def _value_mut_sites(b):
    """(bb, idx|None, kind, line) where the place written / mutably borrowed goes through field
    ShellVariable.value"""
    out = []

    def through_value(pl):
        return any(f == (SV, "value") for f in pl.fields())
    for bl in b.blocks:
        if bl.cleanup:
            continue
        for i, s in enumerate(bl.stmts):
            if s.kind == 'a':
                if through_value(s.place):
                    out.append((bl.idx, i, "write", s.line))
                elif s.rv.kind in ("ref", "rawptr") and s.rv.raw.get("mut") and through_value(s.rv.place):
                    out.append((bl.idx, i, "&mut", s.line))
        t = bl.term
        if t.kind == "call" and t.dest is not None and through_value(t.dest):
            out.append((bl.idx, None, "call-dest", t.line))
    return out


def _readonly_guards(b):
    """switch blocks testing the readonly flag: returns list of (bb, true_successor)"""
    c = cfg_of(b)
    d = defs_of(b)
    out = []
    for bl in b.blocks:
        t = bl.term
        if t.kind != "switch" or bl.idx not in c.reach:
            continue
        hit = False
        for o in origins(b, d, t.discr):
            if "readonly" in o.field_path():
                hit = True
            if o.kind == 'call' and o.node.best_callee() == SV + "::is_readonly":
                hit = True
        if hit and t.ty == "bool":
            # value 0 -> false edge; otherwise -> true edge
            out.append((bl.idx, t.otherwise))
    return out


def readonly_rule(prog, chk):
    chk.rule("R9.1", "every write / &mut borrow through ShellVariable.value is dominated by a test of the readonly flag whose "
                     "true edge cannot reach the write, or is in a reviewed constructor / representation change")
    n = 0
    for b in prog.all_bodies({"brush_core"}):
        sites = _value_mut_sites(b)
        if not sites:
            continue
        fn = owner(b.name)
        c = cfg_of(b)
        guards = _readonly_guards(b)
        unguarded = []
        for bb, idx, kind, line in sites:
            if bb not in c.reach:
                continue
            n += 1
            ok = False
            for g, tsucc in guards:
                if c.dominates(g, bb) and bb not in c.reachable_from(tsucc):
                    ok = True
            if not ok:
                unguarded.append((kind, line))
        if not unguarded:
            chk.ok("R9.1", "writer:" + fn, "%d value write/borrow sites, all behind the readonly test" % len(sites), function=fn)
        elif fn in VALUE_WRITE_EXEMPT:
            chk.ok("R9.1", "exempt:" + fn, VALUE_WRITE_EXEMPT[fn], nontrivial=False, function=fn)
        else:
            chk.fail("R9.1", fn, "unguarded-value-write",
                     "%s writes ShellVariable.value with no dominating readonly test (%s at %s): a readonly variable can be modified through this path"
                     % (fn, unguarded[0][0], b.loc(unguarded[0][1])))
    chk.floor("R9.1", "value write sites", n, 8)

    # no API hands out &mut ShellValue
    chk.rule("R9.1t", "no function returns a mutable reference to a ShellValue (all writers live in brush_core::variables)")
    nf = 0
    for name, fn in prog.fns.items():
        if fn["crate"] not in SHIPPED:
            continue
        nf += 1
        ret = fn["sig"].split("->", 1)[1] if "->" in fn["sig"] else ""
        if "mut brush_core::variables::ShellValue" in ret:
            chk.fail("R9.1t", name, "returns-mut-ShellValue", "%s returns %s" % (name, ret.strip()))
    chk.ok("R9.1t", "signatures", "%d function signatures scanned" % nf, nontrivial=False)
    adt = prog.adts.get(SV)
    if chk.anchor("R9.1t", SV, adt):
        for f in adt["variants"][0]["fields"]:
            if f["name"] in ("value", "readonly"):
                if f["pub"]:
                    chk.fail("R9.1t", SV, "pub-field:" + f["name"], "ShellVariable.%s is public: writers outside the module become possible" % f["name"])
                else:
                    chk.ok("R9.1t", "private:" + f["name"], "field is private", nontrivial=False)

    # unset path
    chk.rule("R9.1u", "ShellVariableMap::unset is reached only behind the is_readonly test of try_unset_in_map")
    MAPUNSET = "brush_core::env::ShellVariableMap::unset"
    us = prog.callers_of(MAPUNSET, crates=SHIPPED)
    chk.floor("R9.1u", "ShellVariableMap::unset callers", len(us), 1)
    for b, bb, t in us:
        fn = owner(b.name)
        c = cfg_of(b)
        d = defs_of(b)
        ok = False
        for bl in b.blocks:
            tt = bl.term
            if tt.kind == "switch" and c.dominates(bl.idx, bb):
                for o in origins(b, d, tt.discr):
                    # Option<bool> from map.get(name).map(is_readonly): a closure / fn const is_readonly
                    if o.kind == 'call':
                        for a in o.node.args:
                            if a.const is not None and a.const.fn and canon(a.const.fn).endswith("is_readonly"):
                                ok = True
                        if o.node.best_callee() == SV + "::is_readonly":
                            ok = True
                        for a in o.node.args:
                            for oo in origins(b, d, a):
                                if oo.kind == 'agg' and oo.node.raw.get("ak") == "closure":
                                    cb = prog.body(canon(oo.node.raw["def"]))
                                    if cb is not None and call_sites(cb, {SV + "::is_readonly"}):
                                        ok = True
        if ok:
            chk.ok("R9.1u", "unset@" + fn, "dominated by a branch on is_readonly", function=fn)
        else:
            chk.fail("R9.1u", fn, "unset-without-readonly-test", "%s calls ShellVariableMap::unset (%s) with no dominating readonly test" % (fn, b.loc(t.line)))

    # every scope visited by unset goes through the readonly-checking remover
    chk.rule("R9.1v", "ShellEnvironment::unset leaves its scope walk only after try_unset_in_map was applied to the scope at hand (or when the "
                      "scopes are exhausted): no early return that skips the readonly test and the removal of a binding")
    ENV_UNSET = "brush_core::env::ShellEnvironment::unset"
    ub = prog.impl_body(ENV_UNSET)
    if chk.anchor("R9.1v", ENV_UNSET, ub):
        uc = cfg_of(ub)
        removers = [bb for bb, t in ub.calls() if (t.best_callee() or "").endswith("ShellEnvironment::try_unset_in_map")]
        loops = uc.source_loops()
        heads = [h for h, blks in loops.items() if any(r in blks for r in removers)]
        if not removers or not heads:
            chk.fail("R9.1v", ENV_UNSET, "scope-walk-shape", "unset no longer walks the scopes through try_unset_in_map in a loop (%d calls, %d loops)" % (len(removers), len(heads)))
        else:
            h = heads[0]
            blks = loops[h]
            # the iterator-exhausted edge: the None arm of the switch on the result of Iterator::next
            exhausted = []
            ud = defs_of(ub)
            for bl in blks:
                t = ub.blocks[bl].term
                if t.kind == "switch":
                    for o in origins(ub, ud, t.discr, through_ops=True):
                        if o.kind == 'call' and (o.node.best_callee() or o.node.callee or "").endswith("Iterator>::next"):
                            exhausted += [tg for v, tg in t.targets if v == 0]
                        if o.kind == 'op' and o.node.kind == 'discr':
                            for oo in (origins(ub, ud, o.node.place, through_ops=True) if o.node.place is not None else []):
                                if oo.kind == 'call' and (oo.node.best_callee() or oo.node.callee or "").endswith("Iterator>::next"):
                                    exhausted += [tg for v, tg in t.targets if v == 0]
            rets = uc.return_blocks()
            p = uc.path(h, rets, avoid=set(removers) | set(exhausted) | set(uc.error_exit_blocks()), after=False)
            if not exhausted:
                chk.fail("R9.1v", ENV_UNSET, "scope-walk-exit-unknown", "could not identify the scopes-exhausted edge of the walk")
            elif p is None:
                chk.ok("R9.1v", "unset-walk-complete", "every return from inside the walk passes try_unset_in_map for the scope at hand", function=ENV_UNSET)
            else:
                chk.fail("R9.1v", ENV_UNSET, "unset-returns-before-removal",
                         "unset can return from inside its scope walk without applying try_unset_in_map to the scope at hand (path %s): a binding is left in place "
                         "(and its readonly attribute is not consulted) — e.g. a value-less `local v` in a caller survives `unset v` in the callee and keeps shadowing the global" % (p[:8],))

    # attributes shape later assignments: `declare -A m` without a value is still an associative array for every writer
    from rules import c06
    chk.rule("R9.5", "every yes/no test `is this an associative/indexed array` in brush_core counts the declared-but-unassigned kind too "
                     "(shared contradiction rule, C06 R6.8): the -A / -a attribute shapes the first assignment")
    nk9 = c06.array_kind_agreement(prog, chk, "R9.5", {"brush_core"}, "`declare -A m; printf -v 'm[key]' v` stores under 0")
    chk.floor("R9.5", "array-kind decisions in brush_core", nk9, 4)

    # whole-variable replacement
    chk.rule("R9.1c", "ShellVariableMap::set (whole-variable replacement / shadowing) is only reached after a readonly test of the "
                      "visible variable of that name")
    MAPSET = "brush_core::env::ShellVariableMap::set"
    for b, bb, t in prog.callers_of(MAPSET, crates=SHIPPED):
        fn = owner(b.name)
        c = cfg_of(b)
        guards = _readonly_guards(b)
        has = any(c.dominates(g, bb) for g, _ in guards) or bool(call_sites(b, {SV + "::is_readonly"}))
        if not has:
            # `opt.is_some_and(|v| v.is_readonly())` / `.map(|v| v.is_readonly())` idiom: a dominating switch whose
            # discriminant comes from a call taking a closure that calls is_readonly, true edge cannot reach the set
            d = defs_of(b)
            for bl in b.blocks:
                t2 = bl.term
                if t2.kind != "switch" or not c.dominates(bl.idx, bb):
                    continue
                for o in origins(b, d, t2.discr, transparent=set()):
                    if o.kind != 'call':
                        continue
                    for a in o.node.args:
                        for oo in origins(b, d, a):
                            if oo.kind == 'agg' and oo.node.raw.get("ak") == "closure":
                                cb = prog.body(canon(oo.node.raw["def"]))
                                if cb is not None and call_sites(cb, {SV + "::is_readonly"}) and bb not in c.reachable_from(t2.otherwise):
                                    has = True
        if fn == "brush_core::env::ShellEnvironment::unset":
            chk.ok("R9.1c", "set@" + fn, "tombstone written only after try_unset_in_map succeeded (R9.1u)", function=fn)
        elif has:
            chk.ok("R9.1c", "set@" + fn, "readonly consulted before replacement", function=fn)
        else:
            chk.fail("R9.1c", fn, "replace-without-readonly-test",
                     "%s replaces/shadows a variable via ShellVariableMap::set (%s) without consulting the readonly flag of the visible variable"
                     % (fn, b.loc(t.line)))


def spawn_env_rule(prog, chk):
    chk.rule("R9.4", "std::process::Command::new has one call site (compose_std_command); env_clear dominates every Command::env; "
                     "variable exports are inside the iter_exported loop behind is_set")
    CMDNEW = "std::process::Command::new"
    sites = prog.callers_of(CMDNEW, crates=SHIPPED)
    chk.floor("R9.4", "Command::new sites", len(sites), 1)
    CSC = "brush_core::commands::compose_std_command"
    for b, bb, t in sites:
        fn = owner(b.name)
        if fn != CSC:
            chk.fail("R9.4", fn, "extra-spawn-site", "%s constructs a std::process::Command (%s) outside compose_std_command: child environment not built from exported variables"
                     % (fn, b.loc(t.line)))
    b = prog.impl_body(CSC)
    if not chk.anchor("R9.4", CSC, b):
        return
    c = cfg_of(b)
    clear = [x for x, _ in call_sites(b, {"std::process::Command::env_clear"})]
    envs = call_sites(b, {"std::process::Command::env"})
    chk.floor("R9.4", "Command::env sites", len(envs), 3)
    if not clear:
        chk.fail("R9.4", CSC, "env_clear-missing", "compose_std_command no longer calls env_clear: the brush process environment leaks into children")
    for ebb, et in envs:
        if clear and c.dominates(clear[0], ebb):
            chk.ok("R9.4", "env@line-after-clear", "env_clear dominates Command::env", function=CSC)
        elif clear:
            chk.fail("R9.4", CSC, "env-before-clear", "Command::env at %s is not dominated by env_clear" % b.loc(et.line))
    # the variable export: an env call inside a loop whose iterator comes from iter_exported and that is dominated by is_set test
    it = call_sites(b, {"brush_core::env::ShellEnvironment::iter_exported"})
    isset = call_sites(b, {SVAL + "::is_set"})
    if not it:
        chk.fail("R9.4", CSC, "iter_exported-missing", "compose_std_command no longer iterates iter_exported()")
        return
    loops = c.source_loops()
    found = False
    for ebb, et in envs:
        for h, blks in loops.items():
            if ebb in blks and c.dominates(it[0][0], h):
                # is_set guard inside the loop dominating the env call, with a skipping edge
                gs = [x for x, _ in isset if x in blks and c.dominates(x, ebb)]
                if gs:
                    # the env call must not be reachable from the is_set==false edge without passing the header
                    g = gs[0]
                    sw = _switch_after(b, c, g)
                    if sw is not None:
                        fsucc = [tgt for v, tgt in b.blocks[sw].term.targets if v == 0]
                        if fsucc and ebb not in c.reachable_from(fsucc[0], avoid=[h]):
                            found = True
    if found:
        chk.ok("R9.4", "export-loop", "Command::env in the iter_exported loop is control dependent on value().is_set()", function=CSC)
    else:
        chk.fail("R9.4", CSC, "export-not-guarded", "no Command::env call inside the iter_exported loop guarded by is_set()")
    # arrays have no environment representation: the export loop must not pass one off as a scalar (its first element)
    isarr = call_sites(b, {SVAL + "::is_array"})
    arr_ok = False
    for ebb, et in envs:
        for h, blks in loops.items():
            if ebb in blks and c.dominates(it[0][0], h):
                for g, _ in isarr:
                    if g in blks and c.dominates(g, ebb):
                        sw = _switch_after(b, c, g)
                        if sw is not None and ebb not in c.reachable_from(b.blocks[sw].term.otherwise, avoid=[h]):
                            arr_ok = True
    if arr_ok:
        chk.ok("R9.4", "export-loop-skips-arrays", "Command::env in the iter_exported loop is not reached for array values", function=CSC)
    else:
        chk.fail("R9.4", CSC, "exported-array-passed-as-scalar",
                 "the export loop of compose_std_command hands array variables to Command::env too (no is_array() test on the way): `declare -ax a=(1 2); env` shows a=1 "
                 "in the child (bash: arrays are not exported)")
    declare_on_readonly_rule(prog, chk)
    attribute_removal_rule(prog, chk)


def _switch_after(b, c, bb):
    """the first switch block reached from bb through gotos/drops"""
    x = bb
    for _ in range(10):
        t = b.blocks[x].term
        if t.kind == "switch":
            return x
        ss = c.succ[x]
        if len(ss) != 1:
            return None
        x = ss[0]
    return None


def run(prog, chk):
    chk.explanation = (
        "FIELDW: every MIR write / &mut borrow through ShellVariable.value is dominated by the readonly test (or is a reviewed "
        "constructor / representation change); no API returns &mut ShellValue; unset and whole-variable replacement are behind "
        "readonly tests; the command ScopeGuard / post_execute pairing holds on every SimpleCommand dispatch path; enter/leave "
        "function pairing; exactly one std::process::Command construction site whose environment is cleared and filled from "
        "exported, set variables. Not decided: dynamic-scoping visibility, attribute effects, bash equality.")
    chk.assumptions = ["rustc MIR + field resolution", "ShellVariable.value is private (checked), so all writers are in brush_core::variables"]
    readonly_rule(prog, chk)
    scope_guard_rule(prog, chk, "R9.2")
    # R9.3 local scope pairing (same rule instance as C18 R18.1 for enter_function)
    chk.rule("R9.3", "enter_function … leave_function paired on every path of invoke_shell_function")
    summ = Summaries(prog)
    SHELL = "brush_core::shell::Shell"
    sites = prog.callers_of(SHELL + "::enter_function", crates=SHIPPED)
    chk.floor("R9.3", "enter_function callers", len(sites), 1)
    for b, bb, t in sites:
        rel = [x for x, _ in call_sites(b, {SHELL + "::leave_function"})]
        esc = pair_escapes(b, bb, rel, summ)
        for key, msg, path in esc:
            chk.fail("R9.3", owner(b.name), "enter_function|" + key, msg)
        if not esc:
            chk.ok("R9.3", "enter/leave@" + owner(b.name), "leave_function post-dominates enter_function", function=owner(b.name))
    spawn_env_rule(prog, chk)


SVARIABLE = "brush_core::variables::ShellVariable"
ATTR_MUTATORS = ("convert_to_associative_array", "convert_to_indexed_array", "treat_as_integer", "unset_treat_as_integer", "treat_as_nameref",
                 "unset_treat_as_nameref", "set_update_transform", "export", "unexport", "enable_trace", "disable_trace", "set_readonly", "unset_readonly")


def declare_on_readonly_rule(prog, chk):
    """R9.6: "a readonly variable's value and attributes cannot be changed … by any construct". `declare -i v=2` (local, readonly,
    export, typeset alike) on an existing readonly variable must leave it untouched: the value is refused, so the attributes named in the
    same declaration must not be applied either. In DeclareCommand::process_declaration, on the existing-variable path, every attribute
    change that precedes the assignment is reached only through the readonly test of that variable, or through the `no value given` edge
    (a bare `declare -i v` on a readonly variable is allowed, as in bash)."""
    from dataflow import flow_back
    chk.rule("R9.6", "declare with a value on an existing readonly variable: the readonly test precedes every attribute change and conversion "
                     "(nothing is half applied)")
    PD = "brush_builtins::declare::DeclareCommand::process_declaration"
    b = prog.impl_body(PD)
    if not chk.anchor("R9.6", PD, b):
        return
    c = cfg_of(b)
    d = defs_of(b)
    looks = [(bb, t) for bb, t in b.calls() if (t.best_callee() or "").endswith("ShellEnvironment::get_mut_using_policy")]
    if not looks:
        chk.fail("R9.6", PD, "lookup-missing", "process_declaration no longer looks the variable up through get_mut_using_policy")
        return
    lb, lt = looks[0]
    sw = b.blocks[lt.target].term
    some = [tg for v, tg in sw.targets if v == 1] if sw.kind == "switch" else []
    if not some:
        chk.fail("R9.6", PD, "lookup-shape", "no Some/None switch after the lookup")
        return
    region = c.reachable_from(some[0], avoid=[sw.otherwise] if sw.otherwise not in some else [])

    def on_var(op):
        return any(any(v.endswith("get_mut_using_policy") for v in f.via) for f in flow_back(b, d, op, all_args=False))

    muts, assigns, guards = [], [], []
    for bb, t in b.calls():
        if bb not in region or not t.args:
            continue
        cal = t.best_callee() or t.callee or ""
        last = cal.rsplit("::", 1)[-1]
        if cal.startswith(SVARIABLE + "::") and last in ATTR_MUTATORS and on_var(t.args[0]):
            muts.append((bb, last))
        elif cal.endswith("DeclareCommand::apply_attributes_before_update") and len(t.args) > 1 and on_var(t.args[1]):
            muts.append((bb, "apply_attributes_before_update"))
        elif cal == SVARIABLE + "::assign" and on_var(t.args[0]):
            assigns.append((bb, t))
        elif cal == SVARIABLE + "::is_readonly" and on_var(t.args[0]):
            guards.append(bb)
    chk.floor("R9.6", "attribute changes on the existing variable before its assignment", len([m for m in muts if any(a in c.reachable_from(m[0]) for a, _ in assigns)]), 2)
    if not assigns:
        chk.fail("R9.6", PD, "assign-missing", "no ShellVariable::assign on the looked-up variable")
        return
    pre = [m for m in muts if any(a in c.reachable_from(m[0]) for a, _ in assigns)]
    if not guards:
        chk.fail("R9.6", PD, "declaration-half-applied-on-readonly",
                 "process_declaration changes attributes of an existing variable (%s …) before ShellVariable::assign rejects a readonly target, and never asks is_readonly "
                 "itself: `readonly v=1; declare -i v=2` fails but leaves v with -i (likewise -l -u -x -n; `declare -a v=(3)` converts it to an array)"
                 % ", ".join(sorted({m[1] for m in pre})[:3]))
        return
    # the readonly edge leaves: from the true edge of the test neither a mutator nor the assignment is reachable
    g = guards[0]
    gs = b.blocks[b.blocks[g].term.target].term if b.blocks[g].term.target is not None else None
    t_edge = gs.otherwise if gs is not None and gs.kind == "switch" else None
    after_true = c.reachable_from(t_edge) if t_edge is not None else set()
    leak = [m for m in pre if m[0] in after_true] + [("assign",) for a, _ in assigns if a in after_true]
    if t_edge is None or leak:
        chk.fail("R9.6", PD, "readonly-edge-continues", "after finding the variable readonly process_declaration still reaches %s" % (leak[:1] or "?"))
        return
    # paths that avoid the test are the `no value given` paths: false edges of is_some() on the declared value
    vloc = None
    for a, at in assigns:
        for f in flow_back(b, d, at.args[1], all_args=False):
            if f.local is not None and vloc is None and f.kind in ("call", "arg", "agg", "op", "unknown"):
                vloc = f.local
    novalue = []
    for bb, t in b.calls():
        if (t.best_callee() or t.callee or "").endswith("Option::is_some") and t.target is not None and b.blocks[t.target].term.kind == "switch":
            fe = [tg for v, tg in b.blocks[t.target].term.targets if v == 0]
            if fe and c.dominates(some[0], bb) and not c.dominates(g, bb) and bb != g:
                novalue.append(fe[0])
    bad = []
    for m, nm in pre:
        w = c.escapes(some[0], [g], [m], after=False, avoid=novalue)
        if w is not None:
            bad.append(nm)
    if bad:
        chk.fail("R9.6", PD, "attribute-change-before-readonly-test",
                 "process_declaration reaches %s on a path that carries a value but has not tested is_readonly: the declaration is half applied to a readonly variable" % bad[0])
    else:
        chk.ok("R9.6", "readonly-test-precedes-attribute-changes", "%d attribute changes / conversions are reached only past the readonly test or on the no-value edge" % len(pre), function=PD)


def attribute_removal_rule(prog, chk):
    """R9.7: "attributes shape every later assignment". The case attributes -c / -l / -u share one slot (the update transform); removing
    one of them (`declare +u v`) may clear the slot only if that very transform is the one in it. In
    DeclareCommand::apply_attributes_before_update every set_update_transform(None) is reached only over the matching edge of a test of
    get_update_transform(); the three handlers are siblings and must agree. An unconditional reset makes `declare +u v` strip `-l`."""
    chk.rule("R9.7", "declare +c/+l/+u: the update transform is reset to None only under a test that the transform being removed is the one set")
    AB = "brush_builtins::declare::DeclareCommand::apply_attributes_before_update"
    b = prog.impl_body(AB)
    if not chk.anchor("R9.7", AB, b):
        return
    c = cfg_of(b)
    d = defs_of(b)
    gets = [(bb, t) for bb, t in b.calls() if (t.best_callee() or "").endswith("ShellVariable::get_update_transform")]
    n = 0
    for bb, t in b.calls():
        if not (t.best_callee() or "").endswith("ShellVariable::set_update_transform") or len(t.args) < 2:
            continue
        is_none = any(o.kind == 'agg' and o.node.variant == "None" for o in origins(b, d, t.args[1]))
        if not is_none:
            continue
        n += 1
        ok = False
        for gb, gt in gets:
            if not c.dominates(gb, bb) or gt.target is None:
                continue
            sw = b.blocks[gt.target].term
            if sw.kind != "switch":
                continue
            from rulelib import resolve_bool_arm
            # `matches!(x, P)` stores a bool in each arm and switches on it afterwards: resolve that second switch per arm
            specific = [resolve_bool_arm(b, tg) for v, tg in sw.targets]
            other = resolve_bool_arm(b, sw.otherwise)
            if any(bb == s or bb in c.reachable_from(s, avoid=[gt.target]) for s in specific) \
                    and not (bb == other or bb in c.reachable_from(other, avoid=[gt.target] + specific)):
                ok = True
        if ok:
            chk.ok("R9.7", "reset-guarded@line%s" % t.line, "set_update_transform(None) only on the matching edge of get_update_transform()", function=AB)
        else:
            chk.fail("R9.7", AB, "transform-reset-unconditional",
                     "apply_attributes_before_update resets the update transform to None (line %s) without testing that the attribute being removed is the one in effect: "
                     "`declare -l v; declare +u v` strips -l, later assignments are no longer lower-cased" % t.line)
    chk.floor("R9.7", "transform resets in apply_attributes_before_update", n, 3)
