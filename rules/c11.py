"""C11 — pipelines and command substitution (DESIGN §3 C11)."""
from rulelib import SHIPPED, call_sites, callgraph, cfg_of, defs_of, owner
from dataflow import base_local, forward_taint, origins, uses_of_local
from facts import canon

PIPE_EXEC = "<brush_parser::ast::Pipeline as brush_core::interp::Execute>::execute"
SPAWN_P = "brush_core::interp::spawn_pipeline_processes"
WAIT_P = "brush_core::interp::wait_for_pipeline_processes_and_update_status"
SUBST = "brush_core::commands::invoke_command_in_subshell_and_get_output"
ESR = "brush_core::results::ExecutionSpawnResult"
SFC = "brush_core::commands::ShellForCommand"
SC = "brush_core::commands::SimpleCommand"

WAITERS = {ESR + "::wait", ESR + "::poll", "brush_core::processes::ChildProcess::wait", "brush_core::jobs::Job::wait",
           "brush_core::jobs::JobTask::wait", "brush_core::jobs::JobManager::wait_all"}

# interpreters that run a whole construct to completion before returning
RUN_TO_COMPLETION = {
    "<brush_parser::ast::CompoundCommand as brush_core::interp::Execute>::execute",
    "<brush_parser::ast::CompoundList as brush_core::interp::Execute>::execute",
    "brush_core::commands::invoke_shell_function",
    "brush_core::commands::execute_builtin_command",
}
STAGE_DISPATCH = [
    "<brush_parser::ast::Command as brush_core::interp::ExecuteInPipeline>::execute_in_pipeline",
    "<brush_parser::ast::SimpleCommand as brush_core::interp::ExecuteInPipeline>::execute_in_pipeline",
    "brush_core::interp::execute_command",
    SC + "::execute", SC + "::execute_via_builtin", SC + "::execute_via_builtin_in_parent_shell",
    SC + "::execute_via_builtin_in_owned_shell", SC + "::execute_via_function", SC + "::execute_via_external",
]


def _parent_guarded(b, c, d, bb):
    """is block bb reachable only through the ParentShell edge of a switch on a ShellForCommand
    discriminant that dominates it?"""
    for bl in b.blocks:
        t = bl.term
        if t.kind != "switch" or not c.dominates(bl.idx, bb) or bl.idx == bb:
            continue
        for o in origins(b, d, t.discr):
            if o.kind == 'op' and o.node.kind == 'discr' and o.node.enum == SFC:
                names = {}
                enum = None
                # variant values
                # (the enums table is on the Program; resolved by caller)
                return bl.idx
    return None


def run(prog, chk):
    chk.explanation = (
        "ORDER / call-graph rules on MIR: all pipeline stages are started before any is waited on (no wait/poll/join inside the spawn "
        "loop; spawn dominates wait), command substitution drains the pipe before joining the producer and moves the write end into "
        "the spawned task, every *inline* call of a run-to-completion interpreter from the stage dispatch functions is reachable only "
        "under ShellForCommand::ParentShell, each completed stage pushes exactly one status and pipefail is gated by its option. "
        "Not decided: byte conservation, SIGPIPE, liveness under sizes and schedules, `read` consuming one line.")
    chk.assumptions = ["rustc MIR", "a body passed to tokio::spawn / spawn_blocking runs concurrently (spawn edge), any other call runs inline"]

    # ---- R11.1 --------------------------------------------------------------------------------------
    chk.rule("R11.1", "Pipeline::execute: spawn_pipeline_processes dominates wait_for_pipeline_processes…; no wait/poll/join inside "
                      "spawn_pipeline_processes")
    pb = prog.impl_body(PIPE_EXEC)
    sp = prog.impl_body(SPAWN_P)
    if chk.anchor("R11.1", PIPE_EXEC, pb) and chk.anchor("R11.1", SPAWN_P, sp):
        c = cfg_of(pb)
        s = call_sites(pb, {SPAWN_P})
        w = call_sites(pb, {WAIT_P})
        if s and w and all(c.dominates(s[0][0], x) for x, _ in w):
            chk.ok("R11.1", "spawn-dominates-wait", "all stages are spawned before the wait call", function=PIPE_EXEC)
        else:
            chk.fail("R11.1", PIPE_EXEC, "spawn-does-not-dominate-wait", "spawn_pipeline_processes does not dominate wait_for_pipeline_processes_and_update_status")
        bad = []
        d = defs_of(sp)
        for bb, t in sp.calls():
            cal = t.best_callee()
            if cal in WAITERS or t.callee in WAITERS:
                bad.append((cal, t.line))
            if t.callee == "core::future::into_future::IntoFuture::into_future" and t.args and t.args[0].place is not None:
                ty = canon(sp.local_ty(t.args[0].place.local))
                if "JoinHandle" in ty or ty.startswith(ESR):
                    bad.append(("await " + ty, t.line))
        if bad:
            chk.fail("R11.1", SPAWN_P, "wait-inside-spawn-loop:" + bad[0][0], "%s at line %s waits for a stage while later stages are not started yet" % bad[0])
        else:
            chk.ok("R11.1", "no-wait-in-spawn", "spawn_pipeline_processes contains no wait/poll/JoinHandle await (%d calls scanned)" % len(list(sp.calls())), function=SPAWN_P)
        # each stage is started through execute_in_pipeline inside the loop
        c2 = cfg_of(sp)
        eip = [(bb, t) for bb, t in sp.calls() if t.callee == "brush_core::interp::ExecuteInPipeline::execute_in_pipeline"]
        inloop = [bb for bb, _ in eip if any(bb in blks for blks in c2.source_loops().values())]
        chk.floor("R11.1", "execute_in_pipeline calls in the spawn loop", len(inloop), 1)

    # ---- R11.2 ----------------------------------------------------------------------------------------
    chk.rule("R11.2", "command substitution: tokio::spawn dominates read_to_string, which dominates the join-handle await; the "
                      "pipe's write end is moved into the spawned task (no later use in the parent)")
    sb = prog.impl_body(SUBST)
    if chk.anchor("R11.2", SUBST, sb):
        c = cfg_of(sb)
        d = defs_of(sb)
        spw = call_sites(sb, {"tokio::task::spawn::spawn"})
        rd = call_sites(sb, {"brush_core::sys::unix::async_pipe::AsyncPipeReader::read_to_string"})
        if not spw or not rd:
            chk.fail("R11.2", SUBST, "anchors", "tokio::spawn / AsyncPipeReader::read_to_string not found (%d, %d)" % (len(spw), len(rd)))
        else:
            sbb, st = spw[0]
            tainted = forward_taint(sb, {st.dest.local})
            joins = [(bb, t) for bb, t in sb.calls() if t.callee == "core::future::into_future::IntoFuture::into_future"
                     and t.args[0].place is not None and t.args[0].place.local in tainted]
            if not joins:
                chk.fail("R11.2", SUBST, "no-join", "the spawned command's JoinHandle is never awaited")
            else:
                jbb = joins[0][0]
                rbb = rd[0][0]
                # the read future must be awaited before the join: its into_future
                rt = forward_taint(sb, {rd[0][1].dest.local})
                raw = [(bb, t) for bb, t in sb.calls() if t.callee == "core::future::into_future::IntoFuture::into_future"
                       and t.args[0].place is not None and t.args[0].place.local in rt]
                if c.dominates(sbb, rbb) and raw and c.dominates(raw[0][0], jbb) and c.dominates(rbb, raw[0][0]):
                    chk.ok("R11.2", "spawn<read<join", "spawn ≺ read_to_string().await ≺ join handle await (dominance)", function=SUBST)
                else:
                    chk.fail("R11.2", SUBST, "drain-before-join-order", "order spawn ≺ drain ≺ join does not hold by dominance: joining before draining deadlocks once output exceeds the pipe capacity")
            # writer moved
            # params local: the one receiving set_fd(STDOUT, writer)
            setfd = call_sites(sb, {"brush_core::interp::ExecutionParameters::set_fd"})
            moved_ok = False
            detail = ""
            for fbb, ft in setfd:
                for pl in [base_local(sb, d, ft.args[0])]:
                    if pl is None:
                        continue
                    later = []
                    for ubb, ui, un in uses_of_local(sb, pl):
                        if ubb in c.reachable_after(sbb) and not (ui is None and un.kind == "drop"):
                            later.append(ubb)
                    # moved (whole local) and the moved value flows into the spawned future?
                    whole_move = False
                    for ubb, ui, un in uses_of_local(sb, pl):
                        ops = un.rv.ops if ui is not None else un.args
                        for a in ops:
                            if a.kind == 'm' and a.place is not None and a.place.local == pl and a.place.is_local():
                                whole_move = True
                    ft2 = forward_taint(sb, {pl})
                    moved = whole_move and any(x.place is not None and x.place.local in ft2 for x in st.args)
                    if moved and not later:
                        moved_ok = True
                    detail = "params local _%s moved=%s later_uses=%s" % (pl, moved, later)
            if moved_ok:
                chk.ok("R11.2", "writer-moved-into-task", "the parameters holding the pipe writer are moved into the spawned future; no later use in the parent", function=SUBST)
            else:
                chk.fail("R11.2", SUBST, "writer-kept-by-parent", "the pipe's write end stays reachable in the parent after the spawn (%s): the reader never sees EOF" % detail)

    # ---- R11.3 inline stages -------------------------------------------------------------------------
    chk.rule("R11.3", "in the stage-dispatch functions every inline call to a run-to-completion interpreter is reachable only under "
                      "ShellForCommand::ParentShell (a stage that owns a cloned shell must be spawned, not run inline)")
    variants = prog.enums.get(SFC, {})
    parent_val = [v for v, n in variants.items() if n == "ParentShell"]
    guarded_fns = {}

    def site_guarded(b, bb):
        c = cfg_of(b)
        d = defs_of(b)
        for bl in b.blocks:
            t = bl.term
            if t.kind != "switch" or bl.idx == bb or not c.dominates(bl.idx, bb):
                continue
            is_sfc = False
            for o in origins(b, d, t.discr):
                if o.kind == 'op' and o.node.kind == 'discr' and o.node.enum == SFC:
                    is_sfc = True
            if not is_sfc:
                continue
            # targets from which bb is reachable must be only the ParentShell value
            ok = True
            seen_parent = False
            for v, tgt in t.targets:
                if bb == tgt or bb in c.reachable_from(tgt):
                    if variants.get(v) == "ParentShell":
                        seen_parent = True
                    else:
                        ok = False
            if bb == t.otherwise or bb in c.reachable_from(t.otherwise):
                # otherwise edge = remaining variants; fine only if every listed target is the non-parent variants
                listed = {variants.get(v) for v, _ in t.targets}
                rest = set(variants.values()) - listed
                if rest == {"ParentShell"}:
                    seen_parent = True
                elif rest:
                    ok = False
            if ok and seen_parent:
                return True
        return False

    def fn_parent_only(fn, stack=()):
        """every call site of fn inside the dispatch family is guarded"""
        if fn in guarded_fns:
            return guarded_fns[fn]
        if fn in stack:
            return False
        sites = [(b, bb) for b, bb, t in prog.callers_of(fn, crates={"brush_core"}) if owner(b.name) in STAGE_DISPATCH]
        if not sites:
            guarded_fns[fn] = False
            return False
        res = all(site_guarded(b, bb) or fn_parent_only(owner(b.name), stack + (fn,)) for b, bb in sites)
        guarded_fns[fn] = res
        return res

    n = 0
    for fn in STAGE_DISPATCH:
        b = prog.impl_body(fn)
        if not chk.anchor("R11.3", fn, b):
            continue
        for bb, t in b.calls():
            cal = t.best_callee()
            if cal not in RUN_TO_COMPLETION:
                continue
            n += 1
            if site_guarded(b, bb):
                chk.ok("R11.3", "%s->%s" % (fn, cal), "call is under the ParentShell arm", function=fn)
            elif fn_parent_only(fn):
                chk.ok("R11.3", "%s->%s" % (fn, cal), "the enclosing function is only reached under ParentShell", function=fn)
            else:
                chk.fail("R11.3", fn, "inline:" + cal,
                         "%s runs %s inline (line %s) regardless of ShellForCommand::OwnedShell: the stage runs to completion while the pipeline "
                         "is still being set up, so a full pipe blocks forever" % (fn, cal, t.line))
    chk.floor("R11.3", "inline run-to-completion calls in stage dispatch", n, 3)
    # positive: the owned-shell builtin path is a spawn edge
    ob = prog.body(SC + "::execute_via_builtin_in_owned_shell")
    if chk.anchor("R11.3", SC + "::execute_via_builtin_in_owned_shell", ob):
        if call_sites(ob, {"tokio::task::blocking::spawn_blocking"}):
            chk.ok("R11.3", "owned-builtin-spawned", "builtins in owned shells go through spawn_blocking", function=ob.name)
        else:
            chk.fail("R11.3", ob.name, "owned-builtin-not-spawned", "execute_via_builtin_in_owned_shell no longer spawns the builtin")

    # ---- R11.4 status collection -----------------------------------------------------------------------
    chunk_decode_rule(prog, chk)
    one_byte_read_rule(prog, chk)
    unbuffered_descriptor_rule(prog, chk)
    pipefail_every_failure_rule(prog, chk)
    chk.rule("R11.4", "wait_for_pipeline…: each waited stage pushes exactly one status before the next stage is popped; the pipefail "
                      "overwrite is control dependent on return_last_failure_from_pipeline")
    wb = prog.impl_body(WAIT_P)
    if chk.anchor("R11.4", WAIT_P, wb):
        c = cfg_of(wb)
        d = defs_of(wb)
        loops = c.source_loops()
        pops = call_sites(wb, {"alloc::collections::vec_deque::VecDeque::pop_front"})
        pushes = [(bb, t) for bb, t in call_sites(wb, {"alloc::vec::Vec::push"})
                  if any(o.kind == 'call' and o.node.best_callee() == "brush_core::shell::Shell::last_pipeline_statuses_mut"
                         for o in origins(wb, d, t.args[0]))]
        chk.floor("R11.4", "status pushes", len(pushes), 2)
        if pops and pushes:
            h = [hh for hh, blks in loops.items() if pops[0][0] in blks]
            waits = [(bb, t) for bb, t in wb.calls() if t.best_callee() in (ESR + "::wait", ESR + "::poll")]
            for wbb, wt in waits:
                p = c.escapes(wbb, [x for x, _ in pushes], h + c.return_blocks(), after=True, avoid=c.error_exit_blocks())
                if p is not None:
                    chk.fail("R11.4", WAIT_P, "stage-without-status", "a non-error path from %s (line %s) reaches the next iteration without pushing a status: %s"
                             % (wt.best_callee(), wt.line, p))
                else:
                    chk.ok("R11.4", "one-status-per-stage:%s" % wt.best_callee().rsplit("::", 1)[-1], "every completed wait pushes a status", function=WAIT_P)
            # at most one push per iteration: no push reaches another push without passing the header
            dbl = [(a, b2) for a, _ in pushes for b2, _ in pushes if a != b2 and h and c.path(a, [b2], avoid=h, after=True)]
            if dbl:
                chk.fail("R11.4", WAIT_P, "two-statuses-per-stage", "two status pushes on one iteration path: %s" % dbl[:1])
            else:
                chk.ok("R11.4", "at-most-one-push", "no iteration path contains two pushes", function=WAIT_P)
        # pipefail
        pf = False
        for bl in wb.blocks:
            t = bl.term
            if t.kind == "switch" and any("return_last_failure_from_pipeline" in o.field_path() for o in origins(wb, d, t.discr)):
                pf = True
        if pf:
            chk.ok("R11.4", "pipefail-gated", "a branch on options.return_last_failure_from_pipeline exists", function=WAIT_P)
        else:
            chk.fail("R11.4", WAIT_P, "pipefail-not-gated", "no branch on return_last_failure_from_pipeline")


DECODERS = {"alloc::string::String::from_utf8_lossy": 0, "alloc::string::String::from_utf8": 0, "core::str::converts::from_utf8": 0,
            "core::str::converts::from_utf8_unchecked": 0, "alloc::string::String::from_utf8_unchecked": 0,
            "alloc::string::String::from_utf8_lossy_owned": 0}
INCREMENTAL_MARKERS = ("Utf8Error::valid_up_to", "Utf8Error::error_len", "utf8_chunks", "Utf8Chunks")
READ_METHODS = ("read", "read_buf", "try_read", "try_read_buf", "poll_read", "read_vectored", "recv")


def _storage(b, d, op, depth=14):
    """named locals an operand's data lives in: follow copies, borrows, slicing / deref calls through their receiver"""
    out = set()
    seen = set()
    work = [op.place.local] if op.place is not None else []
    while work and depth > 0:
        depth -= 1
        nxt = []
        for l in work:
            if l in seen:
                continue
            seen.add(l)
            if b.local_name(l):
                out.add(b.local_name(l))
            for kind, bb, idx, node in d.of(l):
                if kind == 'assign':
                    rv = node.rv
                    if rv.kind in ('use', 'cast') and rv.ops[0].place is not None:
                        nxt.append(rv.ops[0].place.local)
                    elif rv.kind in ('ref', 'rawptr'):
                        nxt.append(rv.place.local)
                elif kind == 'call':
                    if node.args and node.args[0].place is not None:
                        nxt.append(node.args[0].place.local)
        work = nxt
    return out


def chunk_decode_rule(prog, chk):
    """R11.5: bytes obtained from a stream are never UTF-8-decoded one read() at a time. A multi-byte character that straddles
    two reads is invalid in each half; decoding per chunk corrupts (lossy) or rejects (strict) valid output as soon as it is
    larger than one read. Flagged shape: inside one source loop, a read-family call fills buffer B and a UTF-8 decoder is
    applied to B (same named storage), unless the body handles incomplete tails explicitly (valid_up_to / error_len /
    utf8_chunks)."""
    chk.rule("R11.5", "no UTF-8 decoding of a read buffer inside the loop that fills it (stream data is decoded once, after the last read, "
                      "or with explicit incomplete-tail handling)")
    nloops = 0
    ndec = 0
    for b in prog.all_bodies(SHIPPED):
        decs = [(bb, t) for bb, t in b.calls() if (t.best_callee() or "") in DECODERS or (t.callee or "") in DECODERS]
        if not decs:
            continue
        ndec += len(decs)
        c = cfg_of(b)
        d = defs_of(b)
        fn = owner(b.name)
        incremental = any(any(m in (t.best_callee() or "") for m in INCREMENTAL_MARKERS) for _, t in b.calls())
        for h, blocks in c.source_loops().items():
            reads = []
            for bb in blocks:
                t = b.blocks[bb].term
                if t.kind != "call":
                    continue
                cal = t.best_callee() or t.callee or ""
                last = cal.rsplit("::", 1)[-1]
                if last in READ_METHODS and ("Read" in cal or "read" in cal.lower()) and len(t.args) >= 2:
                    reads.append((bb, t))
            if not reads:
                continue
            nloops += 1
            for dbb, dt in decs:
                if dbb not in blocks:
                    continue
                ds = _storage(b, d, dt.args[0])
                for rbb, rt in reads:
                    rs = set()
                    for a in rt.args[1:]:
                        rs |= _storage(b, d, a)
                    shared = ds & rs
                    if shared and not incremental:
                        chk.fail("R11.5", fn, "per-read-utf8-decode:" + sorted(shared)[0],
                                 "%s decodes the read buffer `%s` as UTF-8 (%s at %s) inside the loop that fills it (%s at %s): a multi-byte character "
                                 "split across two reads is replaced or rejected although the stream is valid"
                                 % (fn, sorted(shared)[0], (dt.best_callee() or "").rsplit("::", 1)[-1], b.loc(dt.line),
                                    (rt.best_callee() or "").rsplit("::", 2)[-1], b.loc(rt.line)))
                    elif shared:
                        chk.ok("R11.5", "incremental-decoder@" + fn, "per-read decode with explicit incomplete-tail handling", function=fn)
                    else:
                        chk.ok("R11.5", "decode-of-assembled-record@%s" % fn,
                               "decoder input (%s) is not the buffer the read fills (%s)" % (sorted(ds) or "?", sorted(rs) or "?"), function=fn)
    sb = prog.impl_body("brush_core::sys::unix::async_pipe::AsyncPipeReader::read_to_string")
    if chk.anchor("R11.5", "AsyncPipeReader::read_to_string", sb):
        whole = [t for _, t in sb.calls() if (t.best_callee() or t.callee or "").endswith(("AsyncReadExt::read_to_string", "AsyncReadExt::read_to_end"))]
        if whole and not c_has_source_loop(sb):
            chk.ok("R11.5", "substitution-reader-whole-stream", "the command-substitution reader delegates to a read-to-EOF primitive (validates UTF-8 once over the whole stream)", function=sb.name)
        elif not whole and not c_has_source_loop(sb):
            chk.fail("R11.5", sb.name, "substitution-reader-unknown-shape", "AsyncPipeReader::read_to_string neither loops nor calls a read-to-EOF primitive: does it read the whole stream?")
        else:
            chk.ok("R11.5", "substitution-reader-loop", "hand-written read loop: covered by the per-loop rule above", nontrivial=False, function=sb.name)
    chk.note("utf8_decoder_call_sites", ndec)
    chk.note("loops_with_read_and_decode_examined", nloops)


def c_has_source_loop(b):
    return bool(cfg_of(b).source_loops())


READ_EVENT = "brush_builtins::read::InputReader::read_event"


def one_byte_read_rule(prog, chk):
    """R11.6: `read` consumes exactly one line from a descriptor it shares with other commands. It cannot push bytes back, so it must
    never ask the descriptor for a byte before the previous one has been looked at by the delimiter test: in the function that pulls
    input for the builtin every Read::read on the descriptor fills a one-byte buffer, there is at most one such read per call (no read
    inside a loop, no path from one read to another), and its caller compares every character with the delimiter."""
    from dataflow import flow_back
    chk.rule("R11.6", "the read builtin pulls its input one byte per call of read_event (one-byte buffer, no read in a loop, no second read on "
                      "any path): nothing beyond the delimiter is taken from a shared descriptor")
    b = prog.impl_body(READ_EVENT)
    if not chk.anchor("R11.6", READ_EVENT, b):
        return
    c = cfg_of(b)
    d = defs_of(b)
    reads = [(bb, t) for bb, t in b.calls() if (t.best_callee() or t.callee or "").endswith(("Read>::read", "Read::read", "::read_exact", "::read_to_end", "::read_buf"))
             and bb in c.reach]
    if not reads:
        chk.fail("R11.6", READ_EVENT, "read-call-missing", "no Read::read call found in read_event")
        return
    loops = c.source_loops()
    for bb, t in reads:
        inloop = any(bb in blks for blks in loops.values())
        again = [x for x, _ in reads if x != bb and c.path(bb, [x], after=True) is not None]
        # buffer length
        one = False
        why = "?"
        if len(t.args) >= 2:
            fl = flow_back(b, d, t.args[1], all_args=True)
            ranges = [f for f in fl if f.kind == 'agg' and "ops::range::" in (f.node.raw.get("adt") or "")]
            tys = set()
            for f in fl:
                for p in f.path:
                    if p[0] == 'f' and p[3] == "buffer":
                        pass
            # type of the root the slice is made from
            for f in fl:
                if f.kind in ('arg', 'unknown') or f.local is not None:
                    ty = b.local_ty(f.local) if f.local is not None else ""
                    tys.add(ty)
            adt = prog.adts.get("brush_builtins::read::InputReader")
            fty = None
            if adt:
                for v in adt["variants"]:
                    for fld in v["fields"]:
                        if fld["name"] == "buffer":
                            fty = fld["ty"]
            if ranges:
                r = ranges[0].node
                names = r.raw.get("fn") or []
                vals = [const_of(b, d, o) for o in r.ops]
                kind = r.raw["adt"].rsplit("::", 1)[-1]
                if kind == "RangeTo" and vals and vals[0] == 1:
                    one, why = True, "slice [..1]"
                elif kind == "Range" and len(vals) == 2 and None not in vals and vals[1] - vals[0] == 1:
                    one, why = True, "slice of constant length 1"
                else:
                    why = "slice %s with non-constant or longer bounds" % kind
            elif fty is not None and fty.replace(" ", "") in ("[u8;1]",):
                one, why = True, "field buffer: [u8; 1]"
            else:
                why = "buffer type %s" % (fty or sorted(tys))
        if inloop or again or not one:
            chk.fail("R11.6", READ_EVENT, "read-takes-more-than-one-byte",
                     "read_event can take more than one byte from the descriptor per call (%s%s%s at line %s): bytes after the delimiter — the next line of a shared "
                     "descriptor — are consumed before the delimiter test sees them, so `read x; read y` / a following `cat` lose input"
                     % ("read inside a loop; " if inloop else "", "a second read follows on the same path; " if again else "", "" if one else why, t.line))
        else:
            chk.ok("R11.6", "one-byte-read", "single read per call into a one-byte buffer (%s)" % why, function=READ_EVENT)
    # the caller compares each character with the delimiter
    callers = prog.callers_of(READ_EVENT, crates={"brush_builtins"})
    chk.floor("R11.6", "callers of read_event", len(callers), 1)
    for cb, cbb, ct in callers:
        cd = defs_of(cb)
        eq = False
        for bl in cb.blocks:
            for st in bl.stmts:
                if st.kind == 'a' and st.rv.kind == 'bin' and st.rv.op in ("Eq", "Ne"):
                    og = [o for x in st.rv.ops for o in origins(cb, cd, x, through_ops=True)]
                    if any("delimiter" in o.field_path() for o in og):
                        eq = True
            t2 = bl.term
            if t2.kind == "call" and (t2.best_callee() or "").endswith(("PartialEq>::eq", "PartialEq>::ne")) and \
                    any("delimiter" in o.field_path() for a in t2.args for o in origins(cb, cd, a, through_ops=True)):
                eq = True
        if eq:
            chk.ok("R11.6", "delimiter-compared@" + owner(cb.name).rsplit("::", 1)[-1], "characters are compared with the configured delimiter", function=owner(cb.name))
        else:
            chk.fail("R11.6", owner(cb.name), "delimiter-test-missing", "%s pulls characters with read_event but never compares them with the delimiter" % owner(cb.name))


def const_of(b, d, op):
    from dataflow import const_value
    return const_value(b, d, op)


def unbuffered_descriptor_rule(prog, chk):
    """R11.7: what `read` pulls from is the descriptor itself, not a userspace buffer in front of it: <OpenFile as Read>::read must not
    delegate to a buffering reader (std::io::Stdin holds a process-wide BufReader; BufReader / StdinLock likewise). A buffer in front of
    a shared descriptor swallows input that belongs to the commands that read the descriptor next."""
    chk.rule("R11.7", "<OpenFile as Read>::read hands out bytes straight from the descriptor: no arm reads through a buffering reader "
                      "(std::io::Stdin, StdinLock, BufReader)")
    b = prog.impl_body("<brush_core::openfiles::OpenFile as std::io::Read>::read")
    if not chk.anchor("R11.7", "<OpenFile as Read>::read", b):
        return
    arms = 0
    for bb, t in b.calls():
        cal = t.best_callee() or t.callee or ""
        if not cal.endswith("Read>::read") and not cal.endswith("::read"):
            continue
        arms += 1
        if any(x in cal for x in ("io::stdio::Stdin", "StdinLock", "BufReader", "io::buffered")):
            chk.fail("R11.7", b.name, "read-through-buffered-stdin",
                     "OpenFile::read delegates to %s at line %s: std's Stdin keeps an 8 KiB buffer for the whole process, so a one-byte read by the `read` builtin "
                     "takes a bufferful from descriptor 0 and later readers of that descriptor (child processes) find it drained — "
                     "`printf 'a\\nb\\n' | brush -c 'read x; cat'` prints nothing after `a`" % (short_callee(cal), t.line))
        else:
            chk.ok("R11.7", "unbuffered:" + short_callee(cal), "reads the descriptor directly", function=b.name)
    chk.floor("R11.7", "read arms of OpenFile", arms, 3)


def short_callee(c):
    m = c.split(" as ")[0].lstrip("<&") if " as " in c else c
    return m.rsplit("::", 1)[-1] if "::" in m else m


def pipefail_every_failure_rule(prog, chk):
    """R11.8: under pipefail the status of a pipeline is that of the rightmost stage that failed — whatever its status (141 for a stage
    ended by SIGPIPE included). The store that remembers the failing stage's exit code is control dependent on `!is_success()` and on
    nothing else: no further test of the exit code decides whether a failure counts."""
    chk.rule("R11.8", "pipefail bookkeeping: the store of the last failing stage's exit code depends only on !is_success() — no exit code is exempt")
    b = prog.impl_body(WAIT_P)
    if not chk.anchor("R11.8", WAIT_P, b):
        return
    c = cfg_of(b)
    d = defs_of(b)
    stores = []
    for bl in b.blocks:
        for st in bl.stmts:
            if st.kind == 'a' and st.place.is_local() and (b.local_name(st.place.local) or "") == "last_failure_exit_code" and st.rv.kind == 'agg' and st.rv.variant == "Some":
                stores.append(bl.idx)
    if not stores:
        # fall back: any Option<ExecutionExitCode> local assigned Some inside the loop
        for bl in b.blocks:
            for st in bl.stmts:
                if st.kind == 'a' and st.place.is_local() and st.rv.kind == 'agg' and st.rv.variant == "Some" and "ExecutionExitCode" in b.local_ty(st.place.local):
                    stores.append(bl.idx)
    if not stores:
        chk.fail("R11.8", WAIT_P, "pipefail-store-missing", "no store of the failing stage's exit code found")
        return
    loops = c.source_loops()
    sb = stores[0]
    loop = [blks for h, blks in loops.items() if sb in blks]
    deciding = []
    for g in (loop[0] if loop else range(len(b.blocks))):
        t = b.blocks[g].term
        if t.kind != "switch" or g == sb or not c.dominates(g, sb):
            continue
        if all(sb in c.reachable_from(x, avoid=[g]) for x in c.succ[g]):
            continue
        og = origins(b, d, t.discr, through_ops=True)
        kinds = set()
        for o in og:
            if o.kind == 'call':
                kinds.add((o.node.best_callee() or "").rsplit("::", 1)[-1])
            elif o.kind == 'op' and o.node.kind == 'discr':
                kinds.add("discr:" + (o.node.enum or "?").rsplit("::", 1)[-1])
        deciding.append((g, kinds))
    extra = [(g, k) for g, k in deciding if not (k & {"is_success"}) and not any(x.startswith("discr:ExecutionWaitResult") or x.startswith("discr:Option") or x == "next" or x == "pop_front" or x == "branch" or x.startswith("discr:ControlFlow") or x.startswith("discr:Result") for x in k)]
    if extra:
        chk.fail("R11.8", WAIT_P, "pipefail-exempts-some-failures",
                 "whether a failing stage counts for pipefail also depends on %s (line %s), not only on !is_success(): a stage that failed with an exempted status "
                 "(e.g. 141 after SIGPIPE) no longer makes the pipeline fail — `set -o pipefail; yes | head -1; echo $?` prints 0 (bash 141)"
                 % (sorted(extra[0][1]) or "another condition", b.blocks[extra[0][0]].term.line))
    elif any("is_success" in k for g, k in deciding):
        chk.ok("R11.8", "pipefail-counts-every-failure", "the store depends on is_success() only", function=WAIT_P)
    else:
        chk.fail("R11.8", WAIT_P, "pipefail-store-unguarded", "the store of the failing stage's exit code is not under an is_success() test")
