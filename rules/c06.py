"""C06 — parameter-expansion operators (DESIGN §3 C06): operators fail or return (never abort), the
grammar cannot mis-recognise a longer operator as its prefix, unset tolerance table (shared R3.5)."""
import itertools
import os

import peg
from rulelib import owner

REPO = os.environ.get("BRUSH_REPO", "/repo")

# the operator literals the property lists; every one must be recognised by some alternative
REQUIRED_OPERATORS = [":-", "-", ":=", "=", ":?", "?", ":+", "+", "%%", "%", "##", "#", "//", "/#", "/%", "/", "^^", "^", ",,", ",", ":", "@"]

R61_SCOPE = [
    "brush_core::expansion::WordExpander::expand_parameter_expr",
    "brush_core::expansion::Expansion::polymorphic_len",
    "brush_core::expansion::Expansion::polymorphic_subslice",
    "brush_core::patterns::remove_largest_matching_prefix",
    "brush_core::patterns::remove_smallest_matching_prefix",
    "brush_core::patterns::remove_largest_matching_suffix",
    "brush_core::patterns::remove_smallest_matching_suffix",
    "brush_core::expansion::WordExpander::replace_substring",
    "brush_core::expansion::WordExpander::apply_case_transform",
    "brush_core::expansion::pattern_to_first_char",
    "brush_core::expansion::pattern_to_string",
]


def _effective_alternatives(g):
    """parameter_expression's ordered choice with non_posix_parameter_expression spliced in"""
    out = []
    for alt in peg.split_alternatives(g["parameter_expression"]):
        els = peg.elements(alt)
        calls = [e["text"] for e in els if e["kind"] == "call"]
        if "non_posix_parameter_expression" in calls:
            for a2 in peg.split_alternatives(g["non_posix_parameter_expression"]):
                out.append(("non_posix", peg.elements(a2), a2[0].line if a2 else 0))
        else:
            out.append(("posix", els, alt[0].line if alt else 0))
    return out


def _signature(g, els):
    """(prefix shape, set of operator strings, remainder elements) of one alternative"""
    els = [e for e in els if e["kind"] != "action"]
    idx = next((i for i, e in enumerate(els) if e["kind"] == "call" and e["text"] == "parameter"), None)
    if idx is None:
        return None
    prefix = tuple((e["kind"], e["text"]) for e in els[:idx + 1])
    # literal run after parameter()
    opts = []   # list of lists of alternatives per position
    j = idx + 1
    while j < len(els):
        e = els[j]
        if e["kind"] == "lit" and not e["prefix"]:
            opts.append([e["text"]] + ([""] if "?" in e["suffix"] else []))
            j += 1
        elif e["kind"] == "call" and e["text"] == "parameter_test_type":
            # inline: colon:":"?
            inner = peg.elements(peg.split_alternatives(g["parameter_test_type"])[0])
            lit = next((x for x in inner if x["kind"] == "lit"), None)
            if lit is None:
                break
            opts.append([lit["text"]] + ([""] if "?" in lit["suffix"] else []))
            j += 1
        else:
            break
    sigs = {"".join(c) for c in itertools.product(*opts)} if opts else {""}
    rest = els[j:]
    return prefix, sigs, rest


def run(prog, chk):
    chk.explanation = (
        "TABLE on the peg source of ${…}: in the ordered choice of parameter_expression (with the non-posix alternatives spliced in at "
        "their call position) no alternative whose operator literal is a proper prefix of a later alternative's literal can swallow "
        "it (`%` before `%%`, `:` substring before `:-`), and every operator the property lists is recognised. INV (scoped view of "
        "C01): the operator implementations contain no unreviewed panic-capable construct. The unset-tolerance table is decided "
        "under C03 R3.5. Not decided: results equal bash; shortest/longest semantics of prefix/suffix removal.")
    chk.assumptions = ["peg ordered choice: the first alternative that matches wins", "rustc MIR for the inventory"]

    chk.rule("R6.2", "no earlier alternative with the same prefix shape has an operator literal that is a proper prefix of a later one's "
                     "while its remainder can absorb the rest; all listed operators are recognised")
    g = peg.load(os.path.join(REPO, "brush-parser/src/word.rs")).get("expansion_parser", {})
    if "parameter_expression" not in g or "non_posix_parameter_expression" not in g:
        chk.fail("R6.2", "brush_parser::word", "grammar-missing", "rules parameter_expression / non_posix_parameter_expression not found")
    else:
        alts = _effective_alternatives(g)
        sigs = []
        for origin, els, line in alts:
            s = _signature(g, els)
            if s is not None:
                sigs.append((origin, line) + s)
        chk.floor("R6.2", "operator alternatives", len(sigs), 20)
        allops = set()
        for _, _, _, ss, _ in sigs:
            allops |= ss
        for op in REQUIRED_OPERATORS:
            if op in allops:
                chk.ok("R6.2", "recognised:" + op, "some alternative recognises `%s`" % op, nontrivial=False)
            else:
                chk.fail("R6.2", "brush_parser::word::parameter_expression", "operator-missing:" + op, "no alternative recognises the operator `%s`" % op)
        npairs = 0
        for i, (oa, la, pa, sa, ra) in enumerate(sigs):
            for (ob, lb, pb, sb, rb) in sigs[i + 1:]:
                if pa != pb:
                    continue
                for x in sa:
                    for y in sb:
                        if x and y and y.startswith(x) and len(y) > len(x):
                            npairs += 1
                            # A (earlier, shorter literal) shadows B unless A's remainder must start with a literal that differs
                            first = ra[0] if ra else None
                            absorbs = first is None or first["kind"] != "lit" or "?" in first["suffix"] or y[len(x):].startswith(first["text"])
                            key = "shadow:%s<%s" % (x, y)
                            if absorbs:
                                chk.fail("R6.2", "brush_parser::word::parameter_expression", key,
                                         "the alternative for `%s` (line %s) precedes the one for `%s` (line %s) and can absorb the rest: `${v%sw}` is parsed as `%s` with operand `%s…`"
                                         % (x, la, y, lb, y, x, y[len(x):]))
                            else:
                                chk.ok("R6.2", key, "earlier `%s` cannot absorb `%s`" % (x, y))
        # the ordered pairs that exist today are recorded as positive instances
        ordered = 0
        for i, (oa, la, pa, sa, ra) in enumerate(sigs):
            for (ob, lb, pb, sb, rb) in sigs[i + 1:]:
                if pa == pb and any(x and y and x.startswith(y) and len(x) > len(y) for x in sa for y in sb):
                    ordered += 1
                    lo = sorted(sa)[0]
                    sh = sorted(sb)[0]
                    chk.ok("R6.2", "ordered:%s>%s" % (max(sa, key=len), max(sb, key=len)), "longer operator listed first (lines %s < %s)" % (la, lb))
        chk.floor("R6.2", "longer-before-shorter operator pairs", ordered, 8)

    # ---- R6.1 scoped inventory ------------------------------------------------------------------------
    chk.rule("R6.1", "operator implementations: every panic-capable construct (overflow / bounds / index / unwrap) is guarded, reviewed, "
                     "or a known finding (scoped view of C01 R1.1)")
    try:
        from rules import c01
    except Exception as e:  # pragma: no cover
        chk.fail("R6.1", "(checker)", "inventory-engine-missing", "C01 inventory engine not importable: %r" % (e,), nontrivial=False)
        return
    found = c01.inventory(prog, chk, "R6.1", scope=lambda fn: fn in R61_SCOPE or any(fn.startswith(p + "::{") for p in R61_SCOPE),
                          pid="C06")
    chk.floor("R6.1", "operator implementation bodies", found["bodies"], 6)
