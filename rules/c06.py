"""C06 — parameter-expansion operators (DESIGN §3 C06): operators fail or return (never abort), the
grammar cannot mis-recognise a longer operator as its prefix, unset tolerance table (shared R3.5)."""
import itertools
import os

import peg
from rulelib import SHIPPED, arm_regions, cfg_of, defs_of, enum_switches, owner, short
from dataflow import const_value, flow_back
from facts import canon

REPO = os.environ.get("BRUSH_REPO", "/repo")

# the operator literals the property lists; every one must be recognised by some alternative
REQUIRED_OPERATORS = [":-", "-", ":=", "=", ":?", "?", ":+", "+", "%%", "%", "##", "#", "//", "/#", "/%", "/", "^^", "^", ",,", ",", ":", "@"]

R61_SCOPE = [
    "brush_core::expansion::WordExpander::expand_parameter_expr",
    "brush_core::expansion::Expansion::polymorphic_len",
    "brush_core::expansion::Expansion::polymorphic_subslice",
    "brush_core::patterns::remove_largest_matching_prefix",
    "brush_core::patterns::remove_smallest_matching_prefix",
    "brush_core::patterns::remove_largest_matching_suffix",
    "brush_core::patterns::remove_smallest_matching_suffix",
    "brush_core::expansion::WordExpander::replace_substring",
    "brush_core::expansion::WordExpander::apply_case_transform",
    "brush_core::expansion::pattern_to_first_char",
    "brush_core::expansion::pattern_to_string",
]


def _effective_alternatives(g):
    """parameter_expression's ordered choice with non_posix_parameter_expression spliced in"""
    out = []
    for alt in peg.split_alternatives(g["parameter_expression"]):
        els = peg.elements(alt)
        calls = [e["text"] for e in els if e["kind"] == "call"]
        if "non_posix_parameter_expression" in calls:
            for a2 in peg.split_alternatives(g["non_posix_parameter_expression"]):
                out.append(("non_posix", peg.elements(a2), a2[0].line if a2 else 0))
        else:
            out.append(("posix", els, alt[0].line if alt else 0))
    return out


def _signature(g, els):
    """(prefix shape, set of operator strings, remainder elements) of one alternative"""
    els = [e for e in els if e["kind"] != "action"]
    idx = next((i for i, e in enumerate(els) if e["kind"] == "call" and e["text"] == "parameter"), None)
    if idx is None:
        return None
    prefix = tuple((e["kind"], e["text"]) for e in els[:idx + 1])
    # literal run after parameter()
    opts = []   # list of lists of alternatives per position
    j = idx + 1
    while j < len(els):
        e = els[j]
        if e["kind"] == "lit" and not e["prefix"]:
            opts.append([e["text"]] + ([""] if "?" in e["suffix"] else []))
            j += 1
        elif e["kind"] == "call" and e["text"] == "parameter_test_type":
            # inline: colon:":"?
            inner = peg.elements(peg.split_alternatives(g["parameter_test_type"])[0])
            lit = next((x for x in inner if x["kind"] == "lit"), None)
            if lit is None:
                break
            opts.append([lit["text"]] + ([""] if "?" in lit["suffix"] else []))
            j += 1
        else:
            break
    sigs = {"".join(c) for c in itertools.product(*opts)} if opts else {""}
    rest = els[j:]
    return prefix, sigs, rest


def run(prog, chk):
    chk.explanation = (
        "TABLE on the peg source of ${…}: in the ordered choice of parameter_expression (with the non-posix alternatives spliced in at "
        "their call position) no alternative whose operator literal is a proper prefix of a later alternative's literal can swallow "
        "it (`%` before `%%`, `:` substring before `:-`), and every operator the property lists is recognised. INV (scoped view of "
        "C01): the operator implementations contain no unreviewed panic-capable construct. The unset-tolerance table is decided "
        "under C03 R3.5. Not decided: results equal bash; shortest/longest semantics of prefix/suffix removal.")
    chk.assumptions = ["peg ordered choice: the first alternative that matches wins", "rustc MIR for the inventory"]

    chk.rule("R6.2", "no earlier alternative with the same prefix shape has an operator literal that is a proper prefix of a later one's "
                     "while its remainder can absorb the rest; all listed operators are recognised")
    g = peg.load(os.path.join(REPO, "brush-parser/src/word.rs")).get("expansion_parser", {})
    if "parameter_expression" not in g or "non_posix_parameter_expression" not in g:
        chk.fail("R6.2", "brush_parser::word", "grammar-missing", "rules parameter_expression / non_posix_parameter_expression not found")
    else:
        alts = _effective_alternatives(g)
        sigs = []
        for origin, els, line in alts:
            s = _signature(g, els)
            if s is not None:
                sigs.append((origin, line) + s)
        chk.floor("R6.2", "operator alternatives", len(sigs), 20)
        allops = set()
        for _, _, _, ss, _ in sigs:
            allops |= ss
        for op in REQUIRED_OPERATORS:
            if op in allops:
                chk.ok("R6.2", "recognised:" + op, "some alternative recognises `%s`" % op, nontrivial=False)
            else:
                chk.fail("R6.2", "brush_parser::word::parameter_expression", "operator-missing:" + op, "no alternative recognises the operator `%s`" % op)
        npairs = 0
        for i, (oa, la, pa, sa, ra) in enumerate(sigs):
            for (ob, lb, pb, sb, rb) in sigs[i + 1:]:
                if pa != pb:
                    continue
                for x in sa:
                    for y in sb:
                        if x and y and y.startswith(x) and len(y) > len(x):
                            npairs += 1
                            # A (earlier, shorter literal) shadows B unless A's remainder must start with a literal that differs
                            first = ra[0] if ra else None
                            absorbs = first is None or first["kind"] != "lit" or "?" in first["suffix"] or y[len(x):].startswith(first["text"])
                            key = "shadow:%s<%s" % (x, y)
                            if absorbs:
                                chk.fail("R6.2", "brush_parser::word::parameter_expression", key,
                                         "the alternative for `%s` (line %s) precedes the one for `%s` (line %s) and can absorb the rest: `${v%sw}` is parsed as `%s` with operand `%s…`"
                                         % (x, la, y, lb, y, x, y[len(x):]))
                            else:
                                chk.ok("R6.2", key, "earlier `%s` cannot absorb `%s`" % (x, y))
        # the ordered pairs that exist today are recorded as positive instances
        ordered = 0
        for i, (oa, la, pa, sa, ra) in enumerate(sigs):
            for (ob, lb, pb, sb, rb) in sigs[i + 1:]:
                if pa == pb and any(x and y and x.startswith(y) and len(x) > len(y) for x in sa for y in sb):
                    ordered += 1
                    lo = sorted(sa)[0]
                    sh = sorted(sb)[0]
                    chk.ok("R6.2", "ordered:%s>%s" % (max(sa, key=len), max(sb, key=len)), "longer operator listed first (lines %s < %s)" % (la, lb))
        chk.floor("R6.2", "longer-before-shorter operator pairs", ordered, 8)

    removal_rules(prog, chk)
    unit_rules(prog, chk)
    offset_not_clamped_rule(prog, chk)
    chk.rule("R6.8", "every yes/no test `is this an associative/indexed array` in brush_core answers yes for the declared-but-unassigned kind "
                     "(ShellValue::Unset(kind)) as well — reads, writes and `${m[k]:=w}` agree on how a subscript is evaluated")
    nk = array_kind_agreement(prog, chk, "R6.8", {"brush_core"}, "`declare -A m; : ${m[key]:=v}` evaluates `key` arithmetically and stores the value under 0")
    chk.floor("R6.8", "array-kind decisions in brush_core", nk, 4)

    # ---- R6.1 scoped inventory ------------------------------------------------------------------------
    chk.rule("R6.1", "operator implementations: every panic-capable construct (overflow / bounds / index / unwrap) is guarded, reviewed, "
                     "or a known finding (scoped view of C01 R1.1)")
    try:
        from rules import c01
    except Exception as e:  # pragma: no cover
        chk.fail("R6.1", "(checker)", "inventory-engine-missing", "C01 inventory engine not importable: %r" % (e,), nontrivial=False)
        return
    found = c01.inventory(prog, chk, "R6.1", scope=lambda fn: fn in R61_SCOPE or any(fn.startswith(p + "::{") for p in R61_SCOPE),
                          pid="C06")
    chk.floor("R6.1", "operator implementation bodies", found["bodies"], 6)


REMOVAL_VARIANTS = {
    # ParameterExpr variant → (side, extent)
    "RemoveSmallestSuffixPattern": ("suffix", "smallest"),
    "RemoveLargestSuffixPattern": ("suffix", "largest"),
    "RemoveSmallestPrefixPattern": ("prefix", "smallest"),
    "RemoveLargestPrefixPattern": ("prefix", "largest"),
}
REGEX_EXTENT_APIS = ("::find", "::find_from_pos", "::find_iter", "::captures", "::captures_iter", "::captures_from_pos",
                     "::shortest_match", "::replace", "::replace_all", "::replacen", "::split", "::splitn")
EXPAND_EXPR = "brush_core::expansion::WordExpander::expand_parameter_expr"


def _nested_bodies(prog, b, region=None, depth=3):
    """closure / coroutine bodies constructed in `region` blocks of b (transitively)"""
    out = []
    if depth == 0:
        return out
    for bl in b.blocks:
        if region is not None and bl.idx not in region:
            continue
        for st in bl.stmts:
            if st.kind == 'a' and st.rv.kind == 'agg' and st.rv.raw.get("ak") in ("closure", "coroutine", "coroutine_closure"):
                inner = prog.body(canon(st.rv.raw["def"]))
                if inner is not None:
                    out.append(inner)
                    out += _nested_bodies(prog, inner, None, depth - 1)
    # async closures: the coroutine body is a child of the closure def
    for n, x in prog.bodies.items():
        if x.parent and any(x.parent == o.name for o in out) and x not in out:
            out.append(x)
    return out


def _slice_kinds(b, d, op):
    """how is the &str operand carved out of something: list of (range ADT, [field operands]) for every str Index call on its flow"""
    out = []
    for f in flow_back(b, d, op):
        if f.kind == 'call' and (f.node.best_callee() or "").endswith("core::ops::index::Index>::index") and len(f.node.args) >= 2:
            for g in flow_back(b, d, f.node.args[1]):
                if g.kind == 'agg' and (g.node.raw.get("adt") or "").startswith("core::ops::range::"):
                    out.append((g.node.raw["adt"].rsplit("::", 1)[-1], g.node))
    return out


def removal_rules(prog, chk, R3="R6.3", R4="R6.4", declare=True):
    if declare:
        chk.rule(R4, "the smallest-match removal functions test the empty prefix/suffix (explicit is_match(\"\") or a candidate bound that can be 0 / len)")
    chk.rule(R3, "${v#p} ${v##p} ${v%p} ${v%%p}: each operator's arm calls one removal function; that function compiles the pattern with "
                     "both anchors, decides extents only by is_match over candidate sub-slices of the value (never by a leftmost-first "
                     "find/captures), tests prefixes as s[0..k] / suffixes as s[k..], and for largest-prefix / smallest-suffix walks the "
                     "candidates in reverse")
    eb = prog.impl_body(EXPAND_EXPR)
    if not chk.anchor(R3, EXPAND_EXPR, eb):
        return
    sws = enum_switches(prog, eb, "brush_parser::word::ParameterExpr")
    if not sws:
        chk.fail(R3, EXPAND_EXPR, "switch-missing", "no switch on ParameterExpr")
        return
    sbb, m, other, rest, _ = max(sws, key=lambda x: len(x[1]))
    regions = arm_regions(eb, sbb, dict(m))
    role = {}
    for var, (side, extent) in REMOVAL_VARIANTS.items():
        if var not in regions:
            chk.fail(R3, EXPAND_EXPR, "arm-missing:" + var, "no arm for ParameterExpr::%s" % var)
            continue
        cands = set()
        for nb in [eb] + _nested_bodies(prog, eb, regions[var]):
            for bb, t in nb.calls():
                if nb is eb and bb not in regions[var]:
                    continue
                cal = t.best_callee() or ""
                cb = prog.body(cal)
                if cb is not None and cb.crate in SHIPPED and "Pattern" in " ".join(cb.local_ty(i) for i in range(1, cb.argc + 1)) \
                        and cb.ret.startswith("core::result::Result<&str"):
                    cands.add(cal)
        if len(cands) != 1:
            chk.fail(R3, EXPAND_EXPR, "removal-callee:" + var, "arm %s calls %d candidate removal functions (%s); expected exactly one (pattern, &str) → Result<&str>"
                     % (var, len(cands), sorted(cands)))
            continue
        role[var] = cands.pop()
    if len(set(role.values())) != len(role):
        chk.fail(R3, EXPAND_EXPR, "removal-callee-shared", "two removal operators call the same function: %s" % role)
    for var, fn in sorted(role.items()):
        side, extent = REMOVAL_VARIANTS[var]
        b = prog.body(fn)
        c = cfg_of(b)
        d = defs_of(b)
        tag = "%s-%s" % (extent, side)
        # (a) anchors
        tor = [(bb, t) for bb, t in b.calls() if (t.best_callee() or "").endswith("Pattern::to_regex")]
        if not tor:
            chk.fail(R3, fn, "no-to_regex:" + tag, "%s does not compile its pattern with Pattern::to_regex" % fn)
            continue
        for bb, t in tor:
            a1, a2 = const_value(b, d, t.args[1]), const_value(b, d, t.args[2])
            if a1 == 1 and a2 == 1:
                chk.ok(R3, "anchored:" + tag, "to_regex(true, true): a candidate matches only as a whole", function=fn)
            else:
                chk.fail(R3, fn, "candidate-not-fully-anchored:" + tag,
                         "%s compiles the pattern with anchors (%s, %s) at %s: a candidate slice would 'match' when only part of it does, so the "
                         "removed text is not a %s matching p" % (fn, a1, a2, b.loc(t.line), side))
        # (b) no leftmost-first extent API
        bad = [(bb, t) for bb, t in b.calls() if "egex" in (t.best_callee() or "") and (t.best_callee() or "").endswith(REGEX_EXTENT_APIS)]
        if bad:
            chk.fail(R3, fn, "extent-from-regex-find:" + tag,
                     "%s takes the extent of the match from %s at %s: the engine returns the first alternative that succeeds (leftmost-first), not the "
                     "%s match — `${v%s@(a|ab)}` style patterns remove the wrong amount"
                     % (fn, short(bad[0][1].best_callee()), b.loc(bad[0][1].line), extent, {"prefix": "#", "suffix": "%"}[side] * (2 if extent == "largest" else 1)))
        else:
            chk.ok(R3, "no-find:" + tag, "no find/captures/replace call: extents come from candidate enumeration", function=fn)
        # (c) candidate tests
        tests = [(bb, t) for bb, t in b.calls() if (t.best_callee() or "").endswith("Regex::is_match")]
        loops = c.source_loops()
        inloop = [(bb, t) for bb, t in tests if any(bb in blks for blks in loops.values())]
        if not inloop:
            chk.fail(R3, fn, "no-candidate-loop:" + tag, "%s has no is_match call inside a loop over candidate slices" % fn)
            continue
        for bb, t in inloop:
            kinds = _slice_kinds(b, d, t.args[1])
            names = sorted({k for k, _ in kinds})
            if side == "prefix":
                good = [n for k, n in kinds if k in ("Range", "RangeTo", "RangeInclusive", "RangeToInclusive")
                        and (k.startswith("RangeTo") or const_value(b, d, n.ops[0]) == 0)]
            else:
                good = [n for k, n in kinds if k == "RangeFrom"]
            if good:
                chk.ok(R3, "candidate-shape:" + tag, "loop tests %s slices of the value (%s)" % (side, ",".join(names)), function=fn)
            else:
                chk.fail(R3, fn, "candidate-not-a-%s:%s" % (side, tag), "%s tests slices of kind %s at %s; a %s candidate is %s"
                         % (fn, names or "?", b.loc(t.line), side, "s[0..k]" if side == "prefix" else "s[k..]"))
            # direction, only for the early-return idiom
            h = [hh for hh, blks in loops.items() if bb in blks][0]
            nxt = [(xb, xt) for xb, xt in b.calls() if xb in loops[h] and (xt.best_callee() or xt.callee or "").endswith("Iterator>::next")]
            rev = any("Rev<" in (xt.best_callee() or "") or "Rev<" in b.local_ty(xt.args[0].place.local if xt.args and xt.args[0].place is not None else 0) for xb, xt in nxt)
            rev = rev or any((xt.best_callee() or "").endswith(("Iterator::rev", "DoubleEndedIterator::next_back", "DoubleEndedIterator>::next_back")) for _, xt in b.calls())
            early = c.path(bb, c.return_blocks(), avoid=[h] + list(c.error_exit_blocks()), after=True) is not None
            want_rev = (side, extent) in (("prefix", "largest"), ("suffix", "smallest"))
            if not early or not nxt:
                chk.ok(R3, "direction-undecided:" + tag, "not the first-match-returns idiom; walk direction not decided", nontrivial=False, function=fn)
            elif rev == want_rev:
                chk.ok(R3, "direction:" + tag, "first matching candidate returns; candidates walked %s" % ("longest-first" if extent == "largest" else "shortest-first"), function=fn)
            else:
                chk.fail(R3, fn, "walk-direction:" + tag,
                         "%s returns at the first matching candidate but walks them %s: it removes the %s match, the operator asks for the %s"
                         % (fn, "in reverse" if rev else "forwards", "smallest" if extent == "largest" else "largest", extent))
        # R6.4 the empty candidate
        if extent == "smallest":
            empty = False
            for bb, t in tests:
                for f in flow_back(b, d, t.args[1]):
                    if f.kind == 'const' and (f.node.string == "" or (f.node.string is None and f.node.value in ("", None) and (f.node.ty or "") == "&str" and repr(f.node).find("''") >= 0)):
                        empty = True
                for k, n in _slice_kinds(b, d, t.args[1]):
                    bound = n.ops[-1] if side == "prefix" else n.ops[0]
                    for g in flow_back(b, d, bound):
                        if side == "prefix" and g.kind == 'const' and g.node.value == 0:
                            empty = True
                        if side == "prefix" and g.kind == 'call' and (g.node.best_callee() or "").endswith("CharIndices as core::iter::traits::iterator::Iterator>::next") \
                                and not any("offset" in v for v in g.via):
                            empty = True    # s[0..idx] with idx a char start: the first candidate is s[0..0]
                        if side == "suffix" and g.kind == 'call' and (g.node.best_callee() or "").endswith("str::len"):
                            empty = True
            if empty:
                chk.ok(R4, "empty-candidate:" + tag, "the empty %s is among the tested candidates" % side, function=fn)
            else:
                chk.fail(R4, fn, "empty-candidate-missing:" + tag,
                         "%s never tests the empty %s: a pattern that matches the empty string (`*`, `?(x)`) removes one character instead of nothing" % (fn, side))
    chk.floor(R3, "removal operators resolved to functions", len(role), 4)


def unit_rules(prog, chk):
    """R6.5: lengths and slices use the same unit. `${v:o:l}` slices by characters (Chars::skip/take in polymorphic_subslice), so the
    length that `${#v}` prints and that negative offsets are measured against must be counted in characters too: the length functions of
    ExpansionPiece / WordField count `chars()`, they do not return str::len (bytes).
    R6.6: `${v@u}` upper-cases the first character of the value only (bash); its arm must not reach a per-word capitaliser (a loop that
    tests char::is_whitespace)."""
    chk.rule("R6.5", "the expansion length functions count characters (Chars … count), the unit polymorphic_subslice slices in; no str::len / String::len of piece text")
    lens = [b for b in prog.all_bodies({"brush_core"}) if owner(b.name) in ("brush_core::expansion::ExpansionPiece::len",)]
    sub = prog.body("brush_core::expansion::Expansion::polymorphic_subslice")
    if chk.anchor("R6.5", "Expansion::polymorphic_subslice", sub) and chk.anchor("R6.5", "ExpansionPiece::len", lens[0] if lens else None):
        slices_by_chars = any((t.best_callee() or "").endswith(("Chars as core::iter::traits::iterator::Iterator>::count", "Iterator::skip", "Iterator::take")) or
                              "str::iter::Chars" in (t.best_callee() or "") for _, t in sub.calls())
        for b in lens:
            cals = [(t.best_callee() or t.callee or "") for _, t in b.calls()]
            counts_chars = any("Chars" in c and c.endswith("count") for c in cals) or any(c.endswith("str::chars") for c in cals)
            bytes_len = [c for c in cals if c in ("alloc::string::String::len", "str::len")]
            if slices_by_chars and counts_chars and not bytes_len:
                chk.ok("R6.5", "length-in-characters", "ExpansionPiece::len counts chars(); polymorphic_subslice slices with Chars iterators", function=b.name)
            else:
                chk.fail("R6.5", b.name, "length-in-bytes-slice-in-characters",
                         "ExpansionPiece::len returns %s while polymorphic_subslice slices by characters: for multi-byte values `${#v}` is too large and offsets "
                         "from the end (`${v: -2}`, `${v:0:-1}`) land on the wrong characters" % (bytes_len or "a length not derived from chars()"))
    chk.rule("R6.6", "${v@u} upper-cases only the first character: its arm does not reach a per-word capitaliser")
    tb = prog.impl_body("brush_core::expansion::WordExpander::apply_transform_to")
    if chk.anchor("R6.6", "WordExpander::apply_transform_to", tb):
        sws = enum_switches(prog, tb, "brush_parser::word::ParameterTransformOp")
        arm = None
        for sbb, m, other, rest, _ in sws:
            if "CapitalizeInitial" in m:
                arm = arm_regions(tb, sbb, dict(m)).get("CapitalizeInitial")
        if arm is None:
            chk.fail("R6.6", tb.name, "arm-missing", "no CapitalizeInitial arm in apply_transform_to")
        else:
            bad = None
            for bb in arm:
                t = tb.blocks[bb].term
                if t.kind != "call":
                    continue
                cal = t.best_callee() or ""
                if cal.endswith("char::is_whitespace"):
                    bad = "the arm itself"
                cb = prog.body(cal)
                if cb is not None and cb.crate in SHIPPED and any((t2.best_callee() or "").endswith("char::is_whitespace") for _, t2 in cb.calls()) and cfg_of(cb).source_loops():
                    bad = cal
            if bad:
                chk.fail("R6.6", tb.name, "capitalizes-every-word", "the ${v@u} arm goes through %s, which restarts capitalisation after every whitespace: `v='a b c'` gives `A B C` (bash: `A b c`)" % bad)
            else:
                chk.ok("R6.6", "first-character-only", "no whitespace-driven loop behind the CapitalizeInitial arm", function=tb.name)


SVAL = "brush_core::variables::ShellValue"
SUNSET = "brush_core::variables::ShellValueUnsetType"


def array_kind_agreement(prog, chk, rid, crates, what):
    """A variable declared `-A` (or `-a`) but not yet assigned is ShellValue::Unset(AssociativeArray | IndexedArray). Every yes/no
    decision "is this an associative (indexed) array" — a `matches!` on the ShellValue discriminant whose AssociativeArray (IndexedArray)
    arm yields true — must answer yes for the matching Unset kind too; the sites that do (ShellValue::is_associative_array, the
    subscript handling of reads, writes and assignments) are the reference, a site that answers no is the deviant (Engler-style
    contradiction). Returns the number of decisions examined."""
    from rulelib import resolve_bool_arm
    n = 0
    for b in prog.all_bodies(crates):
        sws = enum_switches(prog, b, SVAL)
        if not sws:
            continue
        c = cfg_of(b)

        def const_bool(bb):
            x = bb
            for _ in range(5):
                for st in b.blocks[x].stmts:
                    if st.kind == 'a' and st.place.is_local() and st.rv.kind == 'use' and st.rv.ops[0].const is not None \
                            and st.rv.ops[0].const.value in (0, 1) and b.local_ty(st.place.local) == "bool":
                        return st.rv.ops[0].const.value
                t = b.blocks[x].term
                if t.kind != "goto":
                    return None
                x = t.target
            return None
        for sbb, m, other, rest, place in sws:
            for kind in ("AssociativeArray", "IndexedArray"):
                if kind not in m or const_bool(m[kind]) != 1:
                    continue
                # only pure kind tests: the other array kind answers false
                n += 1
                fn = owner(b.name)
                un = m.get("Unset", other)
                nested = [x for x in enum_switches(prog, b, SUNSET) if x[0] == un or (un is not None and c.dominates(un, x[0]) and x[0] in c.reachable_from(un))]
                ans = None
                for nsbb, nm, nother, nrest, _ in nested:
                    tgt = nm.get(kind, nother)
                    ans = const_bool(tgt) if tgt is not None else None
                if ans == 1:
                    chk.ok(rid, "unset-%s-counts@%s:%s" % (kind, short(fn), b.blocks[sbb].term.line // 1000), "Unset(%s) answers like %s" % (kind, kind), function=fn)
                else:
                    chk.fail(rid, fn, "unset-%s-not-counted" % kind,
                             "%s decides `is %s` with a test that says no for a variable declared with that kind but not assigned yet (Unset(%s)) at %s, while "
                             "ShellValue::is_associative_array and the subscript handling of reads and assignments say yes: %s"
                             % (fn, kind, kind, b.loc(b.blocks[sbb].term.line), what))
    return n


def offset_not_clamped_rule(prog, chk):
    """R6.9: in `${v:offset:length}` an offset that points before the start (a negative offset larger than the value) selects nothing;
    it is not pulled back to the first character. The offset handed to polymorphic_subslice must not pass through a clamping operation
    (Ord::max / cmp::max / clamp / saturating arithmetic)."""
    from dataflow import flow_back
    chk.rule("R6.9", "the substring offset reaches polymorphic_subslice without being clamped to the start (no max / clamp / saturating_* on its flow)")
    fnname = "brush_core::expansion::WordExpander::expand_parameter_expr"
    b = prog.impl_body(fnname)
    if not chk.anchor("R6.9", fnname, b):
        return
    d = defs_of(b)
    n = 0
    for bb, t in b.calls():
        if not (t.best_callee() or "").endswith("Expansion::polymorphic_subslice") or len(t.args) < 2:
            continue
        n += 1
        vias = {v for f in flow_back(b, d, t.args[1], all_args=True) for v in f.via}
        clamps = sorted(v for v in vias if v.rsplit("::", 1)[-1] in ("max", "clamp", "saturating_add", "saturating_sub", "max_by", "max_by_key")
                        or v.endswith(("cmp::max", "Ord::max", "Ord::clamp")))
        if clamps:
            chk.fail("R6.9", fnname, "offset-clamped-to-start",
                     "the offset of `${v:offset:length}` goes through %s before the slice is taken: a negative offset that reaches past the start selects from the first "
                     "character instead of selecting nothing — `x=abcdef; ${x: -7}` gives `abcdef` (bash: empty)" % short(clamps[0]))
        else:
            chk.ok("R6.9", "offset-unclamped@line-class-%d" % n, "no clamping operation on the offset's data flow", function=fnname)
    chk.floor("R6.9", "polymorphic_subslice calls in the Substring arm", n, 1)
