"""C13 — shell-quoted output re-reads (DESIGN §3 C13): quoting character tables cover the reader's
metacharacters; every re-readable printer routes value text through the quoting module."""
from rulelib import SHIPPED, call_sites, cfg_of, defs_of, owner
from dataflow import const_value, flow_back, origins
from facts import canon

ESC = "brush_core::escape::"
QUOTE_FUNCS = {ESC + "quote", ESC + "force_quote", ESC + "quote_if_needed",
               "brush_core::variables::ShellValue::format", "brush_core::variables::ShellValue::to_assignable_str",
               "brush_core::commands::CommandArg::quote_for_tracing",
               "brush_core::variables::ShellValueLiteral::fmt_scalar_for_tracing",
               "brush_core::variables::ShellValueLiteral::fmt_for_tracing"}

# the reader's characters that end or change a bare word, justified one by one
READER_SPECIAL = {
    '|': "pipe operator", '&': "background / and operator", ';': "list separator", '<': "redirection", '>': "redirection",
    '(': "subshell / function", ')': "subshell / case", ' ': "blank separates words", '\t': "blank separates words",
    '\n': "newline terminates the command", "'": "single quote", '"': "double quote", '\\': "escape",
    '$': "expansion", '`': "command substitution", '*': "glob", '?': "glob", '[': "glob bracket", '{': "brace expansion",
}
WORD_START_SPECIAL = {'#': "starts a comment", '~': "tilde expansion"}
DOUBLE_QUOTE_ESCAPES = {'$', '`', '"', '\\'}
ANSI_C_ESCAPES = {'\\', "'"}

# value sources per printer: flows that carry *user values* (must be quoted)
VALUE_CALLS = {"brush_core::variables::ShellVariable::value", "brush_core::variables::ShellVariable::resolve_value",
               "brush_core::variables::ShellValue::try_get_cow_str", "brush_core::variables::ShellValue::to_cow_str",
               "brush_core::variables::ShellValue::get_at", "brush_core::variables::ShellValue::element_values"}
VALUE_FIELDS = {("brush_core::traps::TrapHandler", "command")}

PRINTERS = [
    # (body name prefix, human name, minimum number of quoted value arguments expected)
    ("<brush_builtins::alias::AliasCommand as brush_core::builtins::Command>::execute", "alias", 2),
    ("brush_builtins::trap::TrapCommand::display_handlers_for", "trap -p", 1),
    ("brush_builtins::export::display_all_exported_vars", "export -p", 1),
    ("<brush_builtins::set::SetCommand as brush_core::builtins::Command>::execute", "set", 0),
    ("brush_builtins::set::display_all", "set", 1),
    ("brush_builtins::declare::DeclareCommand::try_display_declaration", "declare -p", 1),
    ("brush_builtins::declare::DeclareCommand::display_matching_env_declarations", "declare -p", 2),
]


def char_switch_sets(b):
    """for every switch on a `char` in body b: (bb, set of chars listed, targets)"""
    out = []
    c = cfg_of(b)
    for bl in b.blocks:
        t = bl.term
        if t.kind == "switch" and t.ty == "char" and bl.idx in c.reach and not bl.cleanup:
            out.append((bl.idx, {chr(v) for v, _ in t.targets}, t))
    return out


def true_chars(b):
    """characters for which a `matches!(c, ...)` predicate body returns true: listed values whose
    target stores `const true` into the return place"""
    d = defs_of(b)
    res = set()
    for bb, chars, t in char_switch_sets(b):
        for v, tg in t.targets:
            # follow gotos to the assignment of _0
            x = tg
            val = None
            for _ in range(4):
                for s in b.blocks[x].stmts:
                    if s.kind == 'a' and s.place.is_local() and s.place.local == 0 and s.rv.kind == 'use':
                        val = const_value(b, d, s.rv.ops[0])
                tt = b.blocks[x].term
                if val is not None or tt.kind != "goto":
                    break
                x = tt.target
            if val == 1:
                res.add(chr(v))
    return res


STD_CHAR_CLASSES = {
    # std predicate (last path segment) → the code points it accepts, as documented by std
    "is_ascii_control": set(range(32)) | {127},
    "is_control": set(range(32)) | set(range(127, 160)),          # general category Cc
}


def _std_char_classes(b):
    out = set()
    for _, t in b.calls():
        last = (t.best_callee() or t.callee or "").rsplit("::", 1)[-1]
        if last in STD_CHAR_CLASSES and "char" in (t.best_callee() or t.callee or ""):
            out |= {chr(i) for i in STD_CHAR_CLASSES[last]}
    return out


def run(prog, chk):
    chk.explanation = (
        "TABLE: the character classes that select a quoting style are extracted from the SwitchInt tables of "
        "escape::needs_escaping / needs_escaping_at_word_start / needs_ansi_c_quoting and compared with the reader's set of "
        "word-breaking characters (listed with a reason each); each quoting style escapes the characters it cannot hold verbatim. "
        "WHO: in every re-readable printer (alias, trap -p, export -p, set, declare -p, xtrace) each Display-formatted argument that "
        "derives from a user value (alias bodies, trap commands, variable values) passes through the quoting module. "
        "Not decided: the round trip itself for all strings; bash as the reader.")
    chk.assumptions = ["rustc MIR (match on char lowers to SwitchInt with the listed code points)", "char::is_ascii_control = C0 ∪ DEL (std)",
                       "format arguments are the operands of core::fmt::rt::Argument::new_display"]

    # ---- R13.1 tables ------------------------------------------------------------------------------------
    chk.rule("R13.1", "needs_escaping ∪ controls ⊇ the reader's word-breaking characters; a word-initial `#`/`~` triggers quoting; each style "
                      "escapes what it cannot hold")
    ne = prog.body(ESC + "needs_escaping")
    if chk.anchor("R13.1", ESC + "needs_escaping", ne):
        got = true_chars(ne)
        chk.note("needs_escaping_set", "".join(sorted(got)))
        chk.floor("R13.1", "needs_escaping characters", len(got), 15)
        nac = prog.body(ESC + "needs_ansi_c_quoting")
        controls = set()
        if chk.anchor("R13.1", ESC + "needs_ansi_c_quoting", nac):
            controls = true_chars(nac) | _std_char_classes(nac)
            # quote() must consult it
        for ch, why in sorted(READER_SPECIAL.items()):
            if ch in got or ch in controls:
                chk.ok("R13.1", "covered:%r" % ch, "%s — in %s" % (why, "needs_escaping" if ch in got else "controls (ANSI-C quoting)"), function=ne.name)
            else:
                chk.fail("R13.1", ne.name, "uncovered:%r" % ch,
                         "character %r (%s) neither selects quoting in needs_escaping nor ANSI-C quoting: a value containing it is printed bare and re-reads differently" % (ch, why))
        # options that switch a covering mechanism off: QuoteOptions.avoid_ansi_c_quoting_newline removes the newline from the ANSI-C
        # trigger, so wherever that option can be true the newline must select quoting through needs_escaping itself
        nopt = 0
        for ob in prog.all_bodies(SHIPPED):
            od = None
            for bl in ob.blocks:
                for st in bl.stmts:
                    if st.kind == 'a' and st.rv.kind == 'agg' and (st.rv.adt or "").endswith("escape::QuoteOptions"):
                        names = st.rv.raw.get("fn") or []
                        if "avoid_ansi_c_quoting_newline" not in names:
                            continue
                        nopt += 1
                        od = od or defs_of(ob)
                        op = st.rv.ops[names.index("avoid_ansi_c_quoting_newline")]
                        cv = const_value(ob, od, op)
                        from_default = any(o.kind == 'call' and (o.node.best_callee() or o.node.callee or "").endswith("Default>::default") or
                                           (o.kind == 'call' and (o.node.callee or "").endswith("Default::default")) for o in origins(ob, od, op))
                        if cv == 0 or (cv is None and from_default):
                            continue
                        if '\n' in got:
                            chk.ok("R13.1", "newline-covered-without-ansi-c@" + owner(ob.name), "needs_escaping selects quoting for a newline", function=owner(ob.name))
                        else:
                            chk.fail("R13.1", owner(ob.name), "newline-uncovered-under-avoid-ansi-c",
                                     "%s builds QuoteOptions with avoid_ansi_c_quoting_newline possibly true (line %s): quote() then skips ANSI-C quoting for a newline, and "
                                     "needs_escaping has no newline entry, so a word whose only special character is a newline is printed bare — `set -x; : $'a\\nb'` "
                                     "traces as two lines that re-read as two commands" % (owner(ob.name), st.line if hasattr(st, "line") else "?"))
        chk.note("QuoteOptions_constructions", nopt)
        # word-initial specials
        qb = prog.body(ESC + "quote")
        be = prog.body(ESC + "backslash_escape")
        ws = set(got)
        helper = prog.body(ESC + "needs_escaping_at_word_start")
        if helper is not None:
            hs = true_chars(helper)
            used_q = qb is not None and _refers_to(prog, qb, helper.name)
            used_b = be is not None and _refers_to(prog, be, helper.name)
            if used_q and used_b:
                ws |= hs
            else:
                chk.fail("R13.1", ESC + "quote", "word-start-helper-unused", "needs_escaping_at_word_start is not consulted by both quote() and backslash_escape() (quote=%s, backslash_escape=%s)" % (used_q, used_b))
        for bod in (qb, be):
            if bod is not None:
                for bb, chars, t in char_switch_sets(bod):
                    ws |= chars
        for ch, why in sorted(WORD_START_SPECIAL.items()):
            if ch in ws:
                chk.ok("R13.1", "word-start:%r" % ch, "%s — triggers quoting" % why, function=ESC + "quote")
            else:
                chk.fail("R13.1", ESC + "quote", "word-start-uncovered:%r" % ch,
                         "a leading %r (%s) does not trigger quoting: the quoted form re-reads as something else" % (ch, why))
    # styles
    dq = prog.body(ESC + "double_quote")
    if chk.anchor("R13.1", ESC + "double_quote", dq):
        sets = set()
        for bb, chars, t in char_switch_sets(dq):
            sets |= chars
        miss = DOUBLE_QUOTE_ESCAPES - sets
        if miss:
            chk.fail("R13.1", dq.name, "double-quote-escapes", "double_quote does not escape %s inside double quotes" % sorted(miss))
        else:
            chk.ok("R13.1", "double-quote-escapes", "$ ` \" \\ are escaped inside double quotes", function=dq.name)
    aq = prog.body(ESC + "ansi_c_quote")
    if chk.anchor("R13.1", ESC + "ansi_c_quote", aq):
        sets = set()
        for bb, chars, t in char_switch_sets(aq):
            sets |= chars
        miss = ANSI_C_ESCAPES - sets
        falls_back = any((t.callee or "") == ESC + "needs_ansi_c_quoting" for _, t in aq.calls())
        if miss or not falls_back:
            chk.fail("R13.1", aq.name, "ansi-c-escapes", "ansi_c_quote misses %s or no octal fallback for other controls (%s)" % (sorted(miss), falls_back))
        else:
            chk.ok("R13.1", "ansi-c-escapes", "\\ and ' escaped; other controls through the octal fallback", function=aq.name)
    if aq is not None:
        # the numeric fallback must be able to represent every character that is routed to it: `c as u8` keeps one byte
        dd = defs_of(aq)
        narrow = []
        for bl in aq.blocks:
            for st in bl.stmts:
                if st.kind == 'a' and st.rv.kind == 'cast' and st.rv.raw.get("ck") == "IntToInt" and aq.local_ty(st.place.local) in ("u8", "i8") \
                        and st.rv.ops and st.rv.ops[0].place is not None and aq.local_ty(st.rv.ops[0].place.local) == "char":
                    narrow.append((bl.idx, st))
        sel = controls if nac is not None else set()
        wide = sorted(c for c in sel if ord(c) > 0x7f)
        if narrow and wide:
            chk.fail("R13.1", aq.name, "octal-escape-truncates",
                     "ansi_c_quote narrows the character to one byte (`c as u8`, line %s) but needs_ansi_c_quoting also selects %d characters above "
                     "U+007F (U+%04X…): their escape is a single byte that is not the character's UTF-8 encoding, so the value does not re-read"
                     % (narrow[0][1].line if hasattr(narrow[0][1], "line") else "?", len(wide), ord(wide[0])))
        elif narrow:
            chk.ok("R13.1", "octal-escape-exact", "`c as u8` is applied only to characters <= U+007F (the selecting predicate accepts %d characters, all ASCII)" % len(sel), function=aq.name)
        else:
            chk.ok("R13.1", "octal-escape-no-narrowing", "no char→u8 narrowing in ansi_c_quote", nontrivial=False, function=aq.name)
    sq = prog.body(ESC + "single_quote")
    if chk.anchor("R13.1", ESC + "single_quote", sq):
        d = defs_of(sq)
        splits = [t for _, t in sq.calls() if (t.callee or "").endswith("str::split")]
        ok = any(a.const is not None and a.const.value == 39 for t in splits for a in t.args) or \
            any(const_value(sq, d, a) == 39 for t in splits for a in t.args)
        if ok:
            chk.ok("R13.1", "single-quote-splits-on-quote", "single_quote handles the single quote character outside the quotes", function=sq.name)
        else:
            chk.fail("R13.1", sq.name, "single-quote-handling", "single_quote no longer splits on the single-quote character")
    if be is not None:
        if any((t.callee or "") == ESC + "needs_escaping" for _, t in be.calls()) or any(_refers_to(prog, be, ESC + "needs_escaping") for _ in [0]):
            chk.ok("R13.1", "backslash-uses-table", "backslash_escape consults needs_escaping", function=be.name)
        else:
            chk.fail("R13.1", be.name, "backslash-table", "backslash_escape does not consult needs_escaping")
    # quote() consults both predicates
    if qb is not None:
        if _refers_to(prog, qb, ESC + "needs_escaping") and _refers_to(prog, qb, ESC + "needs_ansi_c_quoting"):
            chk.ok("R13.1", "quote-consults-tables", "quote() consults needs_escaping and needs_ansi_c_quoting", function=qb.name)
        else:
            chk.fail("R13.1", qb.name, "quote-tables", "quote() does not consult both character predicates")

    # ---- R13.2 printers ------------------------------------------------------------------------------------
    chk.rule("R13.2", "every Display-formatted argument of a re-readable printer that derives from a user value passes through the quoting "
                      "module (escape::quote*/ShellValue::format/to_assignable_str/…)")
    seen_printers = {}
    for b in prog.all_bodies({"brush_builtins", "brush_core"}):
        which = None
        for prefix, human, _min in PRINTERS:
            if b.name.startswith(prefix):
                which = human
                break
        if which is None:
            continue
        d = defs_of(b)
        fn = owner(b.name)
        for bb, t in b.calls():
            if not (t.callee or "").endswith("fmt::rt::Argument::new_display"):
                continue
            snip = (t.snip or "")
            if "stderr" in snip:
                continue  # diagnostics are not re-read
            flows = flow_back(b, d, t.args[0])
            is_value = False
            src = None
            for f in flows:
                if f.kind == 'call' and (f.node.best_callee() in VALUE_CALLS or f.node.callee in VALUE_CALLS):
                    is_value = True
                    src = f.node.best_callee()
                if any(x in VALUE_FIELDS for x in f.fields()):
                    is_value = True
                    src = "TrapHandler.command"
                # alias values: HashMap item tuple element 1 / HashMap::get result of Shell::aliases
                if f.kind in ('call', 'arg') and any(v.endswith("Shell::aliases") for v in f.via):
                    tup = [p for p in f.path if p[0] == 'f' and p[2] == "(tuple)"]
                    if any(v.endswith("HashMap::get") for v in f.via) or (tup and tup[-1][1] == 1) or (tup and tup[0][1] == 1):
                        is_value = True
                        src = "Shell::aliases value"
            if not is_value:
                continue
            quoted = any(any(v in QUOTE_FUNCS for v in f.via) for f in flows)
            if not quoted:
                # the complete single-quote idiom: the value passes `str::replace('\'', "'\\''")` and the format
                # literal wraps the argument in single quotes (inside '…' every character but ' is literal)
                for f in flows:
                    if f.kind == 'call' and (f.node.callee or "").endswith("str::replace"):
                        pat = f.node.args[1] if len(f.node.args) > 1 else None
                        rep = f.node.args[2] if len(f.node.args) > 2 else None
                        pv = const_value(b, d, pat) if pat is not None else None
                        rs = None
                        if rep is not None:
                            for o in origins(b, d, rep):
                                if o.kind == 'const' and o.node.string is not None:
                                    rs = o.node.string
                        if pv == 39 and rs == "'\\''" and "='{" in snip.replace(" ", "") or (pv == 39 and rs == "'\\''" and "'{" in snip):
                            quoted = True
            seen_printers.setdefault(which, [0, 0])
            seen_printers[which][0] += 1
            lit = (snip.split('"')[1] if '"' in snip else "")[:60]
            if quoted:
                seen_printers[which][1] += 1
                chk.ok("R13.2", "%s:%s" % (which, src), "value text passes through the quoting module (format %r)" % lit, function=fn)
            else:
                chk.fail("R13.2", fn, "unquoted-value:%s" % src,
                         "`%s` prints a user value (%s) raw in format %r at %s: quotes/`$`/backslashes inside the value break the re-read"
                         % (which, src, lit, b.loc(t.line)))
    for prefix, human, mn in PRINTERS:
        if mn:
            got = seen_printers.get(human, [0, 0])[0]
            if got < mn:
                chk.fail("R13.2", "(floor)", "printer-blind:" + human, "expected at least %d value arguments in the `%s` printer, found %d (printer moved or the value-source detection is blind)" % (mn, human, got), nontrivial=False)
    chk.note("printers", seen_printers)
    # xtrace helpers quote
    for fnm in ("brush_core::commands::CommandArg::quote_for_tracing", "brush_core::variables::ShellValueLiteral::fmt_scalar_for_tracing",
                "brush_core::variables::ShellValue::format", "brush_core::variables::ShellValue::to_assignable_str"):
        fb = prog.body(fnm)
        if chk.anchor("R13.2", fnm, fb):
            if any((t.callee or "").startswith(ESC + "quote") or (t.callee or "") == ESC + "force_quote" for _, t in fb.calls()):
                chk.ok("R13.2", "helper-quotes:" + fnm.rsplit("::", 1)[-1], "calls the escape module", function=fnm)
            else:
                chk.fail("R13.2", fnm, "helper-does-not-quote", "%s no longer calls escape::quote*/force_quote" % fnm)

    # ---- R13.6 the xtrace rendering of assignment literals -------------------------------------------------------------
    chk.rule("R13.6", "ShellValueLiteral::fmt_for_tracing writes every piece of the literal (scalar, each key, each element) through "
                      "fmt_scalar_for_tracing; nothing that derives from the literal is formatted raw")
    LIT = "brush_core::variables::ShellValueLiteral::fmt_for_tracing"
    lb = prog.body(LIT)
    if chk.anchor("R13.6", LIT, lb):
        d6 = defs_of(lb)
        nq = len([1 for _, t in lb.calls() if (t.best_callee() or "").endswith("ShellValueLiteral::fmt_scalar_for_tracing")])
        chk.floor("R13.6", "fmt_scalar_for_tracing call sites (scalar and array arms)", nq, 2)
        raw = []
        for bb, t in lb.calls():
            if (t.callee or "").endswith(("fmt::rt::Argument::new_display", "fmt::rt::Argument::new_debug")):
                if any(f.kind == 'arg' and f.local == 1 for f in flow_back(lb, d6, t.args[0], all_args=True)):
                    raw.append(t)
        if raw:
            lit = ((raw[0].snip or "").split('"')[1] if '"' in (raw[0].snip or "") else "")[:40]
            chk.fail("R13.6", LIT, "trace-literal-piece-raw",
                     "the `set -x` rendering of an assignment literal formats a piece of the literal raw (format %r at %s): a key or element containing `$`, blanks, `;` "
                     "or quotes makes the traced line re-read to different keys/values" % (lit, lb.loc(raw[0].line)))
        else:
            chk.ok("R13.6", "trace-literal-quoted", "%d pieces written through fmt_scalar_for_tracing, none raw" % nq, function=LIT)

    # ---- R13.5 declare's attribute filters (shared contradiction rule from C06) -----------------------------------------
    from rules import c06
    chk.rule("R13.5", "the attribute filters of `declare -p -A` / `-a` treat declared-but-unassigned arrays like assigned ones (same answer as "
                      "ShellValue::is_associative_array and the expansion code)")
    nk = c06.array_kind_agreement(prog, chk, "R13.5", {"brush_builtins"}, "`declare -A m; declare -p -A` does not list m, so the dump does not recreate it")
    chk.floor("R13.5", "array-kind decisions in the builtins", nk, 1)


def _refers_to(prog, body, fn_name):
    """does `body` (or a closure it constructs) call fn_name or pass it as a function value?"""
    names = {body.name}
    for bl in body.blocks:
        for s in bl.stmts:
            if s.kind == 'a' and s.rv.kind == 'agg' and s.rv.raw.get("ak") in ("closure",):
                names.add(canon(s.rv.raw["def"]))
    for n in names:
        b = prog.body(n)
        if b is None:
            continue
        for rb in b.raw["blocks"]:
            t = rb["t"]
            if t["k"] == "call":
                f = t["f"]
                if f[0] == 'k' and canon(f[1].get("fn", "")) == fn_name:
                    return True
                for a in t.get("a", []):
                    if a[0] == 'k' and canon(a[1].get("fn", "") or "") == fn_name:
                        return True
            for s in rb["s"]:
                r = s.get("r") or {}
                for key in ("o",):
                    o = r.get(key)
                    if isinstance(o, list) and o and o[0] == 'k' and canon(o[1].get("fn", "") or "") == fn_name:
                        return True
    return False
