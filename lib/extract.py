"""Tree hashing + fact extraction (E1 front-end).

Facts for a given content hash of /repo's sources are cached under /verif/.cache/facts/<hash>.
The extraction always compiles /repo's *current working tree* with the rustc driver; the cache
key is the hash of every *.rs / Cargo.toml / Cargo.lock (and build-relevant file) under /repo.
"""
import fcntl
import glob
import hashlib
import json
import os
import shutil
import subprocess
import sys
import time

VERIF = os.path.dirname(os.path.dirname(os.path.abspath(__file__)))
REPO = os.environ.get("BRUSH_REPO", "/repo")
CACHE = os.path.join(VERIF, ".cache")
DRIVER_DIR = os.path.join(VERIF, "driver")
DRIVER_BIN = os.path.join(DRIVER_DIR, "target", "release", "brush-facts-driver")

QUICK_CRATES = ["brush_parser", "brush_core", "brush_builtins", "brush_interactive", "brush_shell"]

SKIP_DIRS = {"target", ".git", "node_modules"}


def tree_hash(repo=REPO):
    h = hashlib.sha256()
    n = 0
    for root, dirs, files in os.walk(repo):
        dirs[:] = sorted(d for d in dirs if d not in SKIP_DIRS)
        for f in sorted(files):
            if f.endswith((".rs", ".toml", ".lock")):
                p = os.path.join(root, f)
                try:
                    data = open(p, "rb").read()
                except OSError:
                    continue
                h.update(os.path.relpath(p, repo).encode())
                h.update(b"\0")
                h.update(hashlib.sha256(data).digest())
                n += 1
    return h.hexdigest()[:20], n


def _sysroot():
    return subprocess.check_output(["rustc", "+nightly", "--print", "sysroot"], text=True).strip()


def build_driver(verbose=False):
    env = dict(os.environ, CARGO_NET_OFFLINE="true")
    r = subprocess.run(["cargo", "build", "--release", "--offline"], cwd=DRIVER_DIR, env=env,
                       stdout=subprocess.PIPE, stderr=subprocess.STDOUT, text=True)
    if r.returncode != 0 or not os.path.exists(DRIVER_BIN):
        sys.stderr.write(r.stdout)
        raise RuntimeError("driver build failed")
    if verbose:
        print(r.stdout[-500:])


def driver_stamp():
    """hash of the driver sources: a changed driver invalidates cached facts."""
    h = hashlib.sha256()
    for p in sorted(glob.glob(os.path.join(DRIVER_DIR, "src", "*.rs"))):
        h.update(open(p, "rb").read())
    return h.hexdigest()[:8]


def _prune(keep):
    root = os.path.join(CACHE, "facts")
    if not os.path.isdir(root):
        return
    ds = [os.path.join(root, d) for d in os.listdir(root)]
    ds = [d for d in ds if os.path.isdir(d) and os.path.basename(d) != keep]
    ds.sort(key=lambda d: os.path.getmtime(d), reverse=True)
    for d in ds[4:]:
        shutil.rmtree(d, ignore_errors=True)


def ensure_facts(tier="quick", config="default", verbose=False):
    """Returns (facts_dir, info). Runs the extractor if no facts exist for the current tree."""
    os.makedirs(CACHE, exist_ok=True)
    lock = open(os.path.join(CACHE, "lock"), "w")
    fcntl.flock(lock, fcntl.LOCK_EX)
    try:
        if not os.path.exists(DRIVER_BIN):
            build_driver()
        th, nfiles = tree_hash()
        key = "%s-%s-%s" % (th, driver_stamp(), config)
        out = os.path.join(CACHE, "facts", key)
        marker = os.path.join(out, "COMPLETE.json")
        if os.path.exists(marker):
            info = json.load(open(marker))
            info["cached"] = True
            os.utime(out)
            return out, info
        if os.path.isdir(out):
            shutil.rmtree(out)
        os.makedirs(out)
        t0 = time.time()
        target = os.path.join(CACHE, "target")
        os.makedirs(target, exist_ok=True)
        # cargo's freshness cache would skip the wrapper: drop the members' fingerprints.
        for prof in ("debug",):
            for d in glob.glob(os.path.join(target, prof, ".fingerprint", "brush*")):
                shutil.rmtree(d, ignore_errors=True)
            for d in glob.glob(os.path.join(target, prof, ".fingerprint", "xtask*")):
                shutil.rmtree(d, ignore_errors=True)
        env = dict(os.environ)
        env.update({
            "CARGO_NET_OFFLINE": "true",
            "CARGO_INCREMENTAL": "0",
            "RUSTFLAGS": "-Zmir-opt-level=0",
            "BRUSH_FACTS_DIR": out,
            "RUSTC_WORKSPACE_WRAPPER": DRIVER_BIN,
            "CARGO_TARGET_DIR": target,
            "LD_LIBRARY_PATH": _sysroot() + "/lib:" + env.get("LD_LIBRARY_PATH", ""),
        })
        env.pop("RUSTC_WRAPPER", None)
        cmd = ["cargo", "+nightly", "check", "--offline", "-j", "16"]
        if config == "default":
            cmd += ["-p", "brush-shell"]
        elif config == "workspace":
            cmd += ["--workspace", "--exclude", "brush-fuzz"]
        elif config == "allfeatures":
            cmd += ["-p", "brush-shell", "--all-features"]
        elif config.startswith("features:"):
            cmd += ["-p", "brush-shell", "--features", config.split(":", 1)[1]]
        else:
            raise ValueError(config)
        r = subprocess.run(cmd, cwd=REPO, env=env, stdout=subprocess.PIPE, stderr=subprocess.STDOUT, text=True)
        log = r.stdout
        open(os.path.join(out, "cargo.log"), "w").write(log)
        if r.returncode != 0:
            sys.stderr.write(log[-4000:])
            raise RuntimeError("cargo check under the fact driver failed (tree does not compile?)")
        crates = {}
        for f in glob.glob(os.path.join(out, "*.json")):
            base = os.path.basename(f)
            crates.setdefault(base.split("-")[0], []).append(base)
        missing = [c for c in QUICK_CRATES if c not in crates]
        if missing:
            raise RuntimeError("fact files missing for crates: %s" % missing)
        info = {"tree_hash": th, "files_hashed": nfiles, "config": config,
                "crates": crates, "extract_s": round(time.time() - t0, 1), "cached": False}
        json.dump(info, open(marker, "w"))
        _prune(key)
        return out, info
    finally:
        fcntl.flock(lock, fcntl.LOCK_UN)
        lock.close()


if __name__ == "__main__":
    if len(sys.argv) > 1 and sys.argv[1] == "setup":
        build_driver(verbose=True)
        d, info = ensure_facts(verbose=True)
        print("facts:", d, info)
    else:
        d, info = ensure_facts()
        print(d, json.dumps(info))
