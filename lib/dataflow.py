"""Def-use helpers on MIR locals (intraprocedural). MIR temporaries are almost always
single-assignment; user variables may have several defs, all of which are followed."""

AWAIT_PLUMBING = {
    "core::future::into_future::IntoFuture::into_future",
    "core::pin::Pin::new_unchecked",
    "core::future::future::Future::poll",
    "core::future::get_context",
}

TRANSPARENT_CALLS = {
    # value-preserving wrappers: the result "is" (a view of) argument 0
    "core::future::into_future::IntoFuture::into_future",
    "core::pin::Pin::new_unchecked",
    "core::pin::Pin::new",
    "core::future::future::Future::poll",
    "core::ops::deref::Deref::deref",
    "core::ops::deref::DerefMut::deref_mut",
    "core::convert::AsRef::as_ref",
    "core::convert::AsMut::as_mut",
    "core::borrow::Borrow::borrow",
    "core::borrow::BorrowMut::borrow_mut",
    "core::convert::Into::into",
    "core::convert::From::from",
    "core::clone::Clone::clone",
    "alloc::borrow::ToOwned::to_owned",
    "alloc::string::ToString::to_string",
    "core::ops::try_trait::Try::branch",
    "alloc::boxed::Box::pin",
    "alloc::boxed::Box::new",
    "core::option::Option::as_ref",
    "core::option::Option::as_mut",
    "core::option::Option::as_deref",
    "core::iter::traits::collect::IntoIterator::into_iter",
    "alloc::string::String::as_str",
    "core::option::Option::unwrap_or_default",
}


class Defs:
    def __init__(self, body):
        self.body = body
        self.defs = {}      # local -> list of ('assign', bb, idx, Stmt) | ('call', bb, None, Term)
        self.writes = {}    # local -> list of projected writes (bb, idx, Stmt)
        for b in body.blocks:
            for i, s in enumerate(b.stmts):
                if s.kind == 'a':
                    if s.place.is_local():
                        self.defs.setdefault(s.place.local, []).append(('assign', b.idx, i, s))
                    else:
                        self.writes.setdefault(s.place.local, []).append((b.idx, i, s))
            t = b.term
            if t.kind == 'call' and t.dest is not None:
                if t.dest.is_local():
                    self.defs.setdefault(t.dest.local, []).append(('call', b.idx, None, t))
                else:
                    self.writes.setdefault(t.dest.local, []).append((b.idx, None, t))
            if t.kind == 'yield':
                from facts import Place
                ra = Place(t.raw["ra"], body.strs)
                self.defs.setdefault(ra.local, []).append(('resume', b.idx, None, t))

    def of(self, local):
        return self.defs.get(local, [])


class Origin:
    """where a value comes from.
    kind: 'arg' (n), 'call' (Term), 'agg' (Rvalue), 'const' (Const), 'field' (place chain bottomed
    at arg/unknown), 'op' (Rvalue bin/un/cast/discr), 'unknown'"""
    __slots__ = ("kind", "node", "path", "bb", "local")

    def __init__(self, kind, node, path, bb=None, local=None):
        self.kind = kind
        self.node = node
        self.path = path  # tuple of projection steps applied on top of the origin (outermost last)
        self.bb = bb
        self.local = local

    def field_path(self):
        return [p[3] for p in self.path if p[0] == 'f']

    def __repr__(self):
        return "Origin(%s, %r, %s)" % (self.kind, self.node, ".".join(self.field_path()))


def origins(body, defs, operand_or_place, transparent=TRANSPARENT_CALLS, max_depth=40, through_ops=False):
    """Trace a value backwards to its origins. Follows copies/moves, borrows, derefs, casts and the
    value-preserving calls in `transparent` (through argument 0)."""
    from facts import Operand, Place
    out = []
    seen = set()

    def go_place(place, path, depth):
        path = tuple(place.proj) + tuple(path)
        go_local(place.local, path, depth)

    def go_local(local, path, depth):
        key = (local, path)
        if key in seen or depth > max_depth:
            return
        seen.add(key)
        if 1 <= local <= body.argc:
            ds = defs.of(local)
            if not ds:
                out.append(Origin('arg', local, path, local=local))
                return
        ds = defs.of(local)
        if not ds:
            out.append(Origin('unknown', local, path, local=local))
            return
        for kind, bb, idx, node in ds:
            if kind == 'assign':
                rv = node.rv
                if rv.kind == 'use':
                    go_op(rv.ops[0], path, depth + 1, bb)
                elif rv.kind == 'ref' or rv.kind == 'rawptr':
                    go_place(rv.place, path, depth + 1)
                elif rv.kind == 'cast':
                    go_op(rv.ops[0], path, depth + 1, bb)
                elif rv.kind == 'agg':
                    out.append(Origin('agg', rv, path, bb, local))
                elif through_ops and rv.kind in ('un', 'bin'):
                    for o in rv.ops:
                        go_op(o, path, depth + 1, bb)
                else:
                    out.append(Origin('op', rv, path, bb, local))
            elif kind == 'call':
                t = node
                c = t.callee
                if c in transparent and t.args:
                    go_op(t.args[0], path, depth + 1, bb)
                else:
                    out.append(Origin('call', t, path, bb, local))
            else:
                out.append(Origin('unknown', local, path, bb, local))

    def go_op(op, path, depth, bb=None):
        if op.place is not None:
            go_place(op.place, path, depth)
        elif op.const is not None:
            out.append(Origin('const', op.const, path, bb))
        else:
            out.append(Origin('unknown', None, path, bb))

    x = operand_or_place
    if isinstance(x, Operand):
        go_op(x, (), 0)
    elif isinstance(x, Place):
        go_place(x, (), 0)
    else:
        go_local(x, (), 0)
    return out


def uses_of_local(body, local):
    """all (bb, idx|None, node) where `local` is read (operand, borrowed, or call arg)"""
    out = []
    for b in body.blocks:
        for i, s in enumerate(b.stmts):
            if s.kind != 'a':
                continue
            rv = s.rv
            hit = False
            for o in rv.ops:
                if o.place is not None and o.place.local == local:
                    hit = True
            if rv.place is not None and rv.place.local == local:
                hit = True
            if s.place.local == local and not s.place.is_local():
                hit = True
            if hit:
                out.append((b.idx, i, s))
        t = b.term
        ops = list(t.args)
        if t.func is not None:
            ops.append(t.func)
        if t.discr is not None:
            ops.append(t.discr)
        for o in ops:
            if o.place is not None and o.place.local == local:
                out.append((b.idx, None, t))
                break
        else:
            if t.kind == 'drop' and t.place.local == local:
                out.append((b.idx, None, t))
    return out


def field_stores(body, owner_suffix, field):
    """all assignments whose destination place ends in field `field` of ADT `owner`;
    returns (bb, idx, Stmt)"""
    out = []
    for b in body.blocks:
        if b.cleanup:
            continue
        for i, s in enumerate(b.stmts):
            if s.kind == 'a' and s.place.proj:
                last = s.place.proj[-1]
                if last[0] == 'f' and last[3] == field:
                    from facts import canon
                    if canon(last[2]).endswith(owner_suffix):
                        out.append((b.idx, i, s))
    return out


def const_value(body, defs, op):
    """if operand is (or is a single-def local holding) a scalar constant return it else None"""
    if op.const is not None:
        return op.const.value
    if op.place is not None and op.place.is_local():
        ds = defs.of(op.place.local)
        if len(ds) == 1 and ds[0][0] == 'assign' and ds[0][3].rv.kind == 'use':
            return const_value(body, defs, ds[0][3].rv.ops[0])
    return None


def rvalue_origins(body, defs, stmt):
    """origins of the value assigned by an Assign statement"""
    rv = stmt.rv
    if rv.kind == 'agg':
        return [Origin('agg', rv, (), None, None)]
    if rv.kind in ('use', 'cast') and rv.ops:
        return origins(body, defs, rv.ops[0])
    if rv.kind == 'ref':
        return origins(body, defs, rv.place)
    return [Origin('op', rv, (), None, None)]


def forward_taint(body, seeds, through_calls=True):
    """Forward propagation over locals: a local becomes tainted when assigned from an rvalue that
    reads a tainted local (any projection) or from a call with a tainted argument. Flow-insensitive
    (MIR temps are single-assignment), intraprocedural. Returns the set of tainted locals."""
    tainted = set(seeds)
    changed = True

    def reads(op):
        return op.place is not None and op.place.local in tainted
    while changed:
        changed = False
        for b in body.blocks:
            for s in b.stmts:
                if s.kind != 'a':
                    continue
                rv = s.rv
                hit = any(reads(o) for o in rv.ops) or (rv.place is not None and rv.place.local in tainted)
                if hit and s.place.local not in tainted:
                    tainted.add(s.place.local)
                    changed = True
            t = b.term
            if t.kind == 'call' and through_calls and t.dest is not None:
                if any(reads(a) for a in t.args) and t.dest.local not in tainted:
                    tainted.add(t.dest.local)
                    changed = True
    return tainted


def base_local(body, defs, operand, max_depth=10):
    """the local an operand ultimately names through moves/copies/borrows/reborrows only (no calls)"""
    if operand.place is None:
        return None
    loc = operand.place.local
    for _ in range(max_depth):
        ds = defs.of(loc)
        if len(ds) != 1 or ds[0][0] != 'assign':
            return loc
        rv = ds[0][3].rv
        if rv.kind == 'use' and rv.ops[0].place is not None:
            loc = rv.ops[0].place.local
        elif rv.kind in ('ref', 'rawptr'):
            loc = rv.place.local
        else:
            return loc
    return loc


def borrow_root(body, defs, operand, max_depth=12):
    """Follow an operand of reference type back through moves / borrows / reborrows.
    Returns (root_local, net_derefs, field_names): net_derefs = (#Deref projections) - (#borrow
    operations) along the chain. -1 means `&mut <owned place>` (a fresh borrow of storage owned by
    this frame); >= 0 means the reference was derived from a reference that already existed
    (caller-provided storage)."""
    if operand.place is None:
        return None, None, []
    loc = operand.place.local
    net = sum(1 for p in operand.place.proj if p[0] == '*')
    fields = [p[3] for p in operand.place.proj if p[0] == 'f']
    for _ in range(max_depth):
        ds = defs.of(loc)
        if len(ds) != 1 or ds[0][0] != 'assign':
            break
        rv = ds[0][3].rv
        if rv.kind == 'use' and rv.ops[0].place is not None:
            pl = rv.ops[0].place
        elif rv.kind in ('ref', 'rawptr'):
            pl = rv.place
            net -= 1
        else:
            break
        net += sum(1 for p in pl.proj if p[0] == '*')
        fields = [p[3] for p in pl.proj if p[0] == 'f'] + fields
        loc = pl.local
    return loc, net, fields


class Flow:
    __slots__ = ("kind", "node", "path", "via", "local")

    def __init__(self, kind, node, path, via, local=None):
        self.kind = kind
        self.node = node
        self.path = path
        self.via = via
        self.local = local

    def field_path(self):
        return [p[3] for p in self.path if p[0] == 'f']

    def fields(self):
        from facts import canon
        return [(canon(p[2]), p[3]) for p in self.path if p[0] == 'f']

    def __repr__(self):
        return "Flow(%s via %s path %s)" % (self.kind, [v.rsplit('::', 1)[-1] for v in self.via], ".".join(self.field_path()))


def flow_back(body, defs, operand, max_depth=60, all_args=False):
    """Like origins(), but *every* call is passed through its receiver/first argument (all arguments
    when all_args) and the callees passed on the way are recorded in `via`. Used for "does this text
    derive from source S, and did it pass through quoting function Q" questions."""
    out = []
    seen = set()

    def go_place(place, path, via, depth):
        go_local(place.local, tuple(place.proj) + tuple(path), via, depth)

    def go_local(local, path, via, depth):
        key = (local, path, via)
        if key in seen or depth > max_depth:
            return
        seen.add(key)
        ds = defs.of(local)
        if not ds:
            out.append(Flow('arg' if 1 <= local <= body.argc else 'unknown', local, path, via, local))
            return
        for kind, bb, idx, node in ds:
            if kind == 'assign':
                rv = node.rv
                if rv.kind in ('use', 'cast', 'repeat'):
                    go_op(rv.ops[0], path, via, depth + 1)
                elif rv.kind in ('ref', 'rawptr'):
                    p2 = path[1:] if path and path[0] == ('*',) else path
                    go_place(rv.place, p2, via, depth + 1)
                elif rv.kind == 'agg':
                    out.append(Flow('agg', rv, path, via, local))
                    p2 = path
                    while p2 and p2[0][0] == 'd':
                        p2 = p2[1:]
                    if p2 and p2[0][0] == 'f' and p2[0][1] < len(rv.ops):
                        # projection-sensitive: only the selected element flows
                        go_op(rv.ops[p2[0][1]], p2[1:], via, depth + 1)
                    else:
                        for o in rv.ops:
                            go_op(o, path, via, depth + 1)
                elif rv.kind in ('un', 'bin'):
                    for o in rv.ops:
                        go_op(o, path, via, depth + 1)
                elif rv.kind == 'discr':
                    go_place(rv.place, path, via, depth + 1)
                else:
                    out.append(Flow('op', rv, path, via, local))
            elif kind == 'call':
                t = node
                c = t.best_callee() or t.callee or "?"
                v2 = via + (c,)
                out.append(Flow('call', t, path, v2, local))
                args = t.args if all_args else t.args[:1]
                for a in args:
                    go_op(a, path, v2, depth + 1)
            else:
                out.append(Flow('unknown', local, path, via, local))

    def go_op(op, path, via, depth):
        if op.place is not None:
            go_place(op.place, path, via, depth)
        elif op.const is not None:
            out.append(Flow('const', op.const, path, via))

    x = operand_or = operand
    if hasattr(x, "kind") and hasattr(x, "place") and hasattr(x, "const"):
        go_op(x, (), (), 0)
    else:
        go_place(x, (), (), 0)
    return out
