CLAIMS = {}
NA = {}


def claim(pid, text, note, technique, design_ref):
    CLAIMS[pid] = dict(text=text, note=note, technique=technique, design_ref=design_ref)
    NA.pop(pid, None)


def na(pid, reason):
    if pid not in CLAIMS:
        NA[pid] = reason


ST = "static analysis: "

claim("C16",
      "Decides, for every path of the three front-ends and of invoke_trap_handler in the current source, the exit-hook protocol: "
      "on_exit is called from exactly the front-ends, once, outside loops, on every non-unwind path after user code may have run "
      "(`?` exits discharged only by callee summaries computed from MIR); only on_exit fires the EXIT handler; enter/leave and $? "
      "save/restore bracket every handler run; exec never reaches the hook; on_exit turns an `exit` of the handler into the final status "
      "(not so today: known finding, the suite pins it); the per-signal in-progress marks are set on push, removed (own signal only) on pop and cleared "
      "only on a cloned stack. This is the all-paths quantifier the tests cannot reach; "
      "it is a necessary condition for 'exactly once', not the runtime behaviour itself.",
      "Trusted: rustc MIR and callee resolution; await modelled as the call of the awaited fn; unwind/cancellation edges are not exits. "
      "Not decided: output ordering, $? value seen by the handler, handler-calls-exit semantics, errexit/nounset termination inside the interpreter.",
      ST + "MIR CFG must-pass-through + who-may-call + callee summaries", "DESIGN.md §3 C16")
claim("C18",
      "Decides that every internal stack acquire (script/function/trap/command-string/interactive frames, trap-delivery block, env "
      "scopes, command ScopeGuard) has its release on every normal path of every caller in the current source, that wrapper halves "
      "push/pop atomically, that raw pushes and leak primitives occur only at reviewed sites, that OpenFile holds descriptors only "
      "in RAII owners, and that descriptors a command allocates in the persistent table have a release (coproc has none: known finding). Necessary condition for 'no leak per command' on all paths including error returns.",
      "Trusted: rustc MIR; cancellation of a future is not a normal exit; Arc/Drop semantics of std. Not decided: unreaped children, "
      "equality of the k-th iteration with the first.",
      ST + "PAIR (acquire/release post-dominance on MIR CFG) + who-may-call + type inspection", "DESIGN.md §3 C18")

claim("C02",
      "Decides that the break/continue/return/exit protocol is implemented by every loop executor (role-derived: every loop that runs a "
      "DoGroupCommand.list) and every sequence executor on every CFG path: return/exit test leaves the loop, levels are decremented on "
      "every other path, iteration only past !is_break && !is_continue, while/until decrement once on a control-flow condition, "
      "is_normal_flow between consecutive children, and-or short-circuit skips, function/script boundaries consume return, break/continue "
      "never leave a function, subshells return an exit code only, pipeline stages run in a subshell hand back a status only, `!` leaves the "
      "status of return/exit alone, every selected case item assigns the status, and break/continue raise loop control flow only under a "
      "loop-activity test (not so today: two known findings); in the grammar, `for x in` with an empty list still builds a list. A necessary condition for bash-equal traces on all programs.",
      "Trusted: rustc MIR. Not decided: equality of the executed trace and every intermediate $? with bash; the levels-1 arithmetic.",
      ST + "sibling protocol cross-check on MIR CFGs (dominance, must-pass-through, loop structure)", "DESIGN.md §3 C02")
claim("C03",
      "Decides that the errexit exemption flag reaches exactly the exempt contexts (def-use of the params value passed to every "
      "Execute::execute on an if/elif/while/until condition vs body; conditional stores in and-or lists; bang), that errexit and the ERR "
      "trap are applied at exactly one site under the right guards, that command substitution drops errexit on the clone under the "
      "inherit option, that ExecutionParameters are only ever cloned outside the reviewed top-level entry points (so the exemption flag "
      "is inherited by nested contexts), that the flag is only ever set or copied, never cleared, that the undefined-value result is built only "
      "by the nounset policy point, and that the ${…} operator → unset-tolerance table equals the reference.",
      "Trusted: rustc MIR; the AST field of the receiver identifies the syntactic context. Not decided: that the shell stops at the same "
      "command as bash for all programs and option toggles; pipefail status arithmetic.",
      ST + "def-use + dominance on MIR, who-may-call, match-arm table extraction", "DESIGN.md §3 C03")
claim("C09",
      "Decides that every MIR write or &mut borrow through ShellVariable.value is behind the readonly test (FIELDW), that no API returns "
      "&mut ShellValue, that unset and whole-variable replacement consult readonly and unset leaves its scope walk only through the "
      "readonly-checking remover, that the command scope guard / post_execute pop is "
      "reached on every SimpleCommand dispatch path, that enter/leave_function pair, and that child environments come from one "
      "env_clear + iter_exported site that skips unset values and arrays, that a declaration with a value tests readonly before any attribute "
      "change or conversion of the existing variable, that +c/+l/+u reset the case transform only when it is the one set, and that every yes/no test of the array kind counts the declared-but-unassigned kind (the -A/-a attribute "
      "shapes the first assignment).",
      "Trusted: rustc MIR and field resolution. Not decided: dynamic-scoping visibility, attribute effects (-i -l -u), bash equality. "
      "Known finding: ShellEnvironment::add shadows readonly variables (local / temporary assignments).",
      ST + "field-write inventory with dominating-guard check, PAIR, who-may-call", "DESIGN.md §3 C09")
claim("C10",
      "Decides that redirections are applied only to frame-owned ExecutionParameters (borrow-chain analysis of every setup_redirect "
      "call), that the shell's persistent descriptor table has a closed reviewed writer set, that the noclobber branch cannot reach "
      "truncate and uses create_new under is_file, that every path probed or opened during redirect set-up was resolved against the shell's "
      "working directory (the noclobber test inspects the file that is opened), that the here-document writer is dropped before Ok, and "
      "that the tokenizer reads the here-document being collected from the front of its FIFO (tab stripping / end tag never taken from the "
      "last-declared document), and that a failing redirection is handled by the command that owns it (it never feeds the executor's own `?`).",
      "Trusted: rustc MIR; Rust ownership (an owned ExecutionParameters dies with the command). Not decided: left-to-right descriptor "
      "semantics, file contents, here-document tokenizer behaviour.",
      ST + "borrow-root ownership analysis, who-may-call, branch-exclusive reachability", "DESIGN.md §3 C10")
claim("C11",
      "Decides start-all-before-wait (no wait/poll/join in the spawn loop; spawn dominates wait), drain-before-join and writer-moved for "
      "command substitution, one status per stage, that no loop UTF-8-decodes the buffer a read call fills (stream data is decoded once), "
      "that the read builtin takes one byte per call from its descriptor and that OpenFile::read does not go through a buffering reader "
      "(it does for the process's stdin: known finding), that the pipefail bookkeeping depends on !is_success() alone, "
      "and that every inline call of a run-to-completion interpreter from the stage dispatch functions is under "
      "ShellForCommand::ParentShell. The last rule reports the two known deadlock findings.",
      "Trusted: rustc MIR; a closure passed to tokio::spawn/spawn_blocking runs concurrently, any other call inline. Not decided: byte "
      "conservation, SIGPIPE, liveness under sizes and schedules.",
      ST + "ORDER (dominance) + call-graph with spawn edges + enum-discriminant guards", "DESIGN.md §3 C11")
claim("C12",
      "Decides that Shell::clone copies every field from self (reviewed exceptions), that no Shell field shares interior-mutable state "
      "with its clone through Arc/Rc (reviewed exception: key bindings), that every process-global mutator API call is in a pre_exec "
      "callback, behind !is_subshell() or reviewed, that every subshell-like context runs its body on the clone, that a pipeline stage "
      "is given the invoking shell only on the single-command or lastpipe-last-stage edges (never with job control on), that errors raised in "
      "a subshell stage are turned into its status, that a job's result reaches its waiter only as an exit code, and (grammar) that the "
      "arithmetic command opens only at two adjacent `(` tokens — `( ( cmd ) )` being nested subshells (not so today: known finding, pinned "
      "by a parser snapshot).",
      "Trusted: rustc MIR and fully-qualified type strings; external types are opaque except generic arguments. Known findings: umask, "
      "ulimit, `( ( cmd ) )`. Not decided: that every piece of semantic state lives in Shell.",
      ST + "aggregate-field provenance, type walk, who-may-call with dominating guards, forward taint", "DESIGN.md §3 C12")
claim("C17",
      "Decides that every tokio::spawn in brush_core is registered as a job on all paths / joined in place / a reviewed detached spawn, "
      "that wait→wait_all→Job::wait→JobTask::wait is a chain of awaits inside loops whose only exit is exhaustion (no error exit leaves "
      "early, awaited tasks are always removed, no link polls), and that a new job's number is an upper bound of all live numbers (maximum "
      "over the whole table or a growing counter) while jobs can leave the table from the middle, and that bare `wait` reaches wait_all on every "
      "non-error path (no shortcut on a summary of the job table).",
      "Trusted: rustc MIR; tokio JoinHandle semantics. Not decided: happens-before of job effects, output ordering, schedules.",
      ST + "forward taint + PAIR + loop-exit analysis + def-use", "DESIGN.md §3 C17")
claim("C20",
      "Decides that an item written by History::flush is marked clean on every path back to the loop head, that the skip edge depends on "
      "the dirty flag, that imported items are constructed clean and new ones dirty, that the #epoch line precedes its command in the "
      "same iteration under write_timestamps, the reviewed (append, unsaved-only) modes of all flush callers, and that any position cached "
      "in a History field and used to select items is maintained by every method that replaces the item list; that add appends a fresh id, nothing "
      "else inserts, import adds every non-comment line verbatim and flush walks the list front to back.",
      "Trusted: rustc MIR; format literals recovered from macro call-site snippets. Not decided: file contents over all interleavings.",
      ST + "must-pass-through on MIR CFG, aggregate-constant inspection, who-may-call", "DESIGN.md §3 C20")

claim("C01",
      "Decides, for every body of the five shipped crates, that each panic-capable construct found in MIR (overflow / division / bounds "
      "asserts, unwrap/expect/panic calls, precondition APIs such as indexing, Vec::remove, String::replace_range, step_by, "
      "Duration::from_secs_f64, block_on — also when passed as function values) is generated by an external macro, discharged by a "
      "dominating guard, covered by a reviewed (function, kind, count, reason) table entry, or reported; the classes include Display "
      "implementations of dependencies that fail on their own (chrono formatter, itertools Format) reaching to_string/format!, and a few "
      "documented panics of dependencies; plus evaluator totality and recursion guards shared with C07 (the depth counter is carried round "
      "every cycle of the evaluator's call-graph SCC), loops bounded by a named limit count on every cycle, and printf's re-apply loop has its "
      "two exits (no operand-consuming item; an item asked to stop). A new unguarded site anywhere is reported. Necessary condition for `never panics`.",
      "Trusted: rustc MIR of a debug-assertions build; code generated by peg/cached/clap/tokio/tracing/thiserror/async-trait/strum macros; "
      "the one-line reasons in rules/c01_table.json (reviewed by reading the code; triage fuzzing of ~250k inputs found no panic at a "
      "tabled site). Not decided: termination of loops (one tokenizer spin was found by triage and fixed), stack exhaustion, panics "
      "inside dependencies called with valid arguments.",
      ST + "complete construct inventory over MIR with dominating-guard discharge and a reviewed table", "DESIGN.md §3 C01")
claim("C04",
      "Decides the quoting-tag mechanism on all paths: tag maps (Unsplittable→Literal, Splittable→Pattern), the tag constructed by every "
      "expand_word_piece arm against a reference table, make_unsplittable on everything leaving double-quote processing, restoration "
      "of in_double_quotes on every path, split_fields touching only Splittable pieces, literal regex pieces escaped, glob activity asked "
      "only of unquoted (Pattern) pieces, joins of fields are positional (no separator placed by accumulated emptiness), a here-string gets its "
      "newline unconditionally, and a taint rule: "
      "no text derived from variable values / positional parameters / command-substitution output reaches a word or program parser "
      "inside brush_core::expansion.",
      "Trusted: rustc MIR; taint is not propagated through the long-lived &mut Shell / &mut WordExpander receivers. Not decided: "
      "byte-exactness for every string / IFS / glob option / directory.",
      ST + "match-arm table extraction, PAIR, backward taint over MIR def-use", "DESIGN.md §3 C04")
claim("C06",
      "Decides that in the ordered choice of the ${…} grammar no shorter operator literal can swallow a longer one (`%` vs `%%`, `:` vs "
      "`:-`, …) and every listed operator is recognised; that the operator implementations contain no unreviewed panic-capable "
      "construct (scoped C01 inventory); that each of the four prefix/suffix removal operators resolves to a function that enumerates "
      "fully anchored candidate slices of the right side in the right direction, never takes extents from a leftmost-first regex search, "
      "and (smallest forms) tests the empty candidate; that lengths are counted in characters like the slices, ${v@u} touches the first "
      "character only, every is-associative/indexed test counts the declared-but-unassigned kind, and the substring offset is not clamped; "
      "the unset-tolerance table is decided under C03.",
      "Trusted: peg ordered-choice semantics; rustc MIR; fancy_regex is leftmost-first. Not decided: results equal bash for all values; "
      "completeness of the candidate set between the extremes; the pattern→regex translation.",
      ST + "PEG source table analysis + scoped construct inventory", "DESIGN.md §3 C06")
claim("C07",
      "Decides evaluator totality (no trapping i64 operation; div/rem/pow guarded), equality of the precedence!{} table with the bash "
      "reference (levels and associativity), the literal→AST-variant and AST-variant→operation tables, structural short-circuit of && || "
      "?:, operand order of assignments (plain: value before store; compound `x op= e`: current value of x read before e is evaluated), "
      "the dereference depth guard, that variable contents are read only by the arithmetic parser, that `${v:o:l}` evaluates o before l, that the "
      "parse cache key is the input itself, and that assignments are not operands (they are today: known finding).",
      "Trusted: rustc MIR; peg precedence!{} semantics; the reference table (bash manual). Not decided: literal values, printed results.",
      ST + "MIR operation inventory + grammar table comparison + control dependence", "DESIGN.md §3 C07")
claim("C08",
      "Decides that compiled patterns anchor the whole string (flag group has `s` and not `m`; whole-string matchers pass both anchors; "
      "^/$ emitted under their flags), that the literal-escaping tables contain every regex metacharacter (and the parser-side table is a "
      "superset), that pathname expansion sorts per directory and applies the dot-file policy, and (shared with C06) that the pattern "
      "operators of parameter expansion enumerate fully anchored candidates and never use a leftmost-first search for extents; that no "
      "pattern of [[ ]] / case / ${v#p} is built from the flat text of an expansion, that the dot-file policy is per path component, and (PEG "
      "source) that a leading `]` is a bracket member and an escaped letter/digit in a bracket is emitted bare, not as a regex escape.",
      "Trusted: rustc MIR; fancy_regex flag semantics; format literals recovered from call-site snippets. Not decided: the pattern→regex "
      "translation for all patterns, collation order.",
      ST + "constant/flag inspection, SwitchInt character-table extraction, must-pass-through, PEG grammar inspection", "DESIGN.md §3 C08")
claim("C13",
      "Decides that the quoting character tables cover the reader's word-breaking characters (each listed with its reason) including a "
      "leading `#`/`~`, that each quoting style escapes what it cannot hold, that the one-byte octal fallback of ANSI-C quoting is applied "
      "only to characters the selecting predicate keeps within ASCII, and that every Display-formatted argument of the re-readable "
      "printers that derives from a user value passes through the quoting module (or the complete single-quote replace idiom), and that the "
      "`set -x` rendering of an assignment literal writes every key and element through the quoting helper.",
      "Trusted: rustc MIR; std's documented char classes (is_ascii_control, is_control). Known finding: trap -p prints the handler raw (the suite pins it as "
      "known_failure). Not decided: the round trip itself for all strings; bash as the reader.",
      ST + "SwitchInt character-table extraction + backward flow from format arguments", "DESIGN.md §3 C13")
claim("C14",
      "Decides that for every operator-like AST enum the literal written by Display is one the grammar maps to the same variant "
      "(program, arithmetic and test grammars; 84 rows), that the [[ ]] and test predicate tables agree, that every Display loop "
      "reachable from FunctionDefinition separates its items, that every Display impl of an AST node reads every field of its node "
      "(locations and one reviewed derived field excepted) and in the order the grammar binds them, that the BASH_FUNC reader accepts what "
      "the writer emits and runs only after the parser-relevant options have their start-up values, that all operator → implied-descriptor tables agree, that here-document terminators are printed unquoted and bodies are not "
      "written through an indenting adaptor (both fail today: two known findings), and that export / declare -f print through the same "
      "Display impl.",
      "Trusted: rustc MIR; peg source inspection. Known findings: here-documents inside printed functions. Not decided: parse∘print "
      "fixed point, keyword skeletons of struct nodes.",
      ST + "printer-table (MIR match arms) vs parser-table (peg source) comparison", "DESIGN.md §3 C14")
claim("C15",
      "Decides that every parameter of each of the six memoised functions flows into the key of cache_get and cache_set, that workspace "
      "key component types derive Hash/PartialEq/Eq, that the memoised computations (966 reachable bodies) read no mutable static, "
      "thread-local or ambient-state API, and that every parse inside the stdin completeness decision is given the accumulated input or "
      "a prefix of it (never a tail or a single line, whose tokenizer context would be lost); that memo keys are injective images of the inputs; "
      "that SourcePosition.index (a character count) is nowhere compared with a byte length or used as a byte offset; and that every run of a "
      "separately parsed program text is given a line base (its own call frame, or a rebase of the line offset by the current command's line), "
      "so $LINENO does not depend on the delivery mode.",
      "Trusted: rustc MIR; cached::SizedCache key semantics. Not decided: equality of outputs across delivery modes, the "
      "complete/incomplete classification, the $LINENO values themselves.",
      ST + "backward taint to memo keys, derive inspection, call-graph purity closure", "DESIGN.md §3 C15")
claim("C19",
      "Decides that the highlighter contains no unchecked slicing/indexing/unwrap, slices only through str::get, and that append_span — "
      "the only place spans are pushed — starts every span at (a maximum with) current_byte_index with both bounds clamped to character "
      "boundaries (themselves clamped to the line length) and advances the cursor on every path; that every path of highlight_program ends "
      "with a span/skip up to global_offset + line.len() and highlight_command runs it over the whole line at offset 0; and that the renderer "
      "pushes the text of every span (slice of the line by the span's own range): ordered / contiguous / non-overlapping / char-aligned / "
      "covering hold structurally.",
      "Trusted: rustc MIR; str::get returns None instead of panicking. Not decided: which kind a span gets; that tokenizer offsets are the true piece offsets.",
      ST + "scoped construct inventory + value provenance of span bounds", "DESIGN.md §3 C19")

claim("C05",
      "Decides only the clauses of the property that are visible in the shape of the code: the stage order of full word expansion "
      "(basic expansion dominates field splitting dominates pathname expansion, each fed with the previous stage's value; inside basic "
      "expansion brace ≺ parse ≺ per-piece expansion ≺ coalescing), that the glob stage is bypassed only on the two glob-disabling option "
      "edges, that field splitting has the pipeline as its only caller and closes a field by its piece count (an empty quoted piece keeps its "
      "field), that the dot-file test of a glob component looks at its first piece only, and that no stage glues several generated words into one string "
      "that is parsed as a single word again (reported today for brace expansion: known finding, `IFS=$'\\n'; set -- {a,b}; echo $#` "
      "prints 1). Necessary conditions for 'expansions happen in the same order, fields split at the same places'.",
      "Trusted: rustc MIR; bash's documented stage order. Known finding: brace-expansion words are joined with a blank and re-parsed "
      "(the repair makes a known_failure case of the suite pass, so the unedited suite rejects it). Not decided: the argument lists "
      "themselves over words x IFS x directory trees, tilde/parameter/command/arithmetic results, glob matching (C08), quoting tags (C04).",
      ST + "stage-order dominance + value flow on MIR, who-may-call, forward taint from the brace-word vector to word parsers", "DESIGN.md §3 C05")
