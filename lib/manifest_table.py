CLAIMS = {}
NA = {}


def claim(pid, text, note, technique, design_ref):
    CLAIMS[pid] = dict(text=text, note=note, technique=technique, design_ref=design_ref)
    NA.pop(pid, None)


def na(pid, reason):
    if pid not in CLAIMS:
        NA[pid] = reason


ST = "static analysis: "

claim("C16",
      "Decides, for every path of the three front-ends and of invoke_trap_handler in the current source, the exit-hook protocol: "
      "on_exit is called from exactly the front-ends, once, outside loops, on every non-unwind path after user code may have run "
      "(`?` exits discharged only by callee summaries computed from MIR); only on_exit fires the EXIT handler; enter/leave and $? "
      "save/restore bracket every handler run; exec never reaches the hook. This is the all-paths quantifier the tests cannot reach; "
      "it is a necessary condition for 'exactly once', not the runtime behaviour itself.",
      "Trusted: rustc MIR and callee resolution; await modelled as the call of the awaited fn; unwind/cancellation edges are not exits. "
      "Not decided: output ordering, $? value seen by the handler, handler-calls-exit semantics, errexit/nounset termination inside the interpreter.",
      ST + "MIR CFG must-pass-through + who-may-call + callee summaries", "DESIGN.md §3 C16")
claim("C18",
      "Decides that every internal stack acquire (script/function/trap/command-string/interactive frames, trap-delivery block, env "
      "scopes, command ScopeGuard) has its release on every normal path of every caller in the current source, that wrapper halves "
      "push/pop atomically, that raw pushes and leak primitives occur only at reviewed sites, and that OpenFile holds descriptors only "
      "in RAII owners. Necessary condition for 'no leak per command' on all paths including error returns.",
      "Trusted: rustc MIR; cancellation of a future is not a normal exit; Arc/Drop semantics of std. Not decided: unreaped children, "
      "equality of the k-th iteration with the first.",
      ST + "PAIR (acquire/release post-dominance on MIR CFG) + who-may-call + type inspection", "DESIGN.md §3 C18")

claim("C02",
      "Decides that the break/continue/return/exit protocol is implemented by every loop executor (role-derived: every loop that runs a "
      "DoGroupCommand.list) and every sequence executor on every CFG path: return/exit test leaves the loop, levels are decremented on "
      "every other path, iteration only past !is_break && !is_continue, while/until decrement once on a control-flow condition, "
      "is_normal_flow between consecutive children, and-or short-circuit skips, function/script boundaries consume return, break/continue "
      "never leave a function, subshells return an exit code only. A necessary condition for bash-equal traces on all programs.",
      "Trusted: rustc MIR. Not decided: equality of the executed trace and every intermediate $? with bash; the levels-1 arithmetic.",
      ST + "sibling protocol cross-check on MIR CFGs (dominance, must-pass-through, loop structure)", "DESIGN.md §3 C02")
claim("C03",
      "Decides that the errexit exemption flag reaches exactly the exempt contexts (def-use of the params value passed to every "
      "Execute::execute on an if/elif/while/until condition vs body; conditional stores in and-or lists; bang), that errexit and the ERR "
      "trap are applied at exactly one site under the right guards, that command substitution drops errexit on the clone under the "
      "inherit option, and that the ${…} operator → unset-tolerance table equals the reference.",
      "Trusted: rustc MIR; the AST field of the receiver identifies the syntactic context. Not decided: that the shell stops at the same "
      "command as bash for all programs and option toggles; pipefail status arithmetic.",
      ST + "def-use + dominance on MIR, who-may-call, match-arm table extraction", "DESIGN.md §3 C03")
claim("C09",
      "Decides that every MIR write or &mut borrow through ShellVariable.value is behind the readonly test (FIELDW), that no API returns "
      "&mut ShellValue, that unset and whole-variable replacement consult readonly, that the command scope guard / post_execute pop is "
      "reached on every SimpleCommand dispatch path, that enter/leave_function pair, and that child environments come from one "
      "env_clear + iter_exported site.",
      "Trusted: rustc MIR and field resolution. Not decided: dynamic-scoping visibility, attribute effects (-i -l -u), bash equality. "
      "Known finding: ShellEnvironment::add shadows readonly variables (local / temporary assignments).",
      ST + "field-write inventory with dominating-guard check, PAIR, who-may-call", "DESIGN.md §3 C09")
claim("C10",
      "Decides that redirections are applied only to frame-owned ExecutionParameters (borrow-chain analysis of every setup_redirect "
      "call), that the shell's persistent descriptor table has a closed reviewed writer set, that the noclobber branch cannot reach "
      "truncate and uses create_new under is_file, and that the here-document writer is dropped before Ok.",
      "Trusted: rustc MIR; Rust ownership (an owned ExecutionParameters dies with the command). Not decided: left-to-right descriptor "
      "semantics, file contents, here-document tokenizer behaviour.",
      ST + "borrow-root ownership analysis, who-may-call, branch-exclusive reachability", "DESIGN.md §3 C10")
claim("C11",
      "Decides start-all-before-wait (no wait/poll/join in the spawn loop; spawn dominates wait), drain-before-join and writer-moved for "
      "command substitution, one status per stage, and that every inline call of a run-to-completion interpreter from the stage "
      "dispatch functions is under ShellForCommand::ParentShell. The last rule reports the two known deadlock findings.",
      "Trusted: rustc MIR; a closure passed to tokio::spawn/spawn_blocking runs concurrently, any other call inline. Not decided: byte "
      "conservation, SIGPIPE, liveness under sizes and schedules.",
      ST + "ORDER (dominance) + call-graph with spawn edges + enum-discriminant guards", "DESIGN.md §3 C11")
claim("C12",
      "Decides that Shell::clone copies every field from self (reviewed exceptions), that no Shell field shares interior-mutable state "
      "with its clone through Arc/Rc (reviewed exception: key bindings), that every process-global mutator API call is in a pre_exec "
      "callback, behind !is_subshell() or reviewed, and that every subshell-like context runs its body on the clone.",
      "Trusted: rustc MIR and fully-qualified type strings; external types are opaque except generic arguments. Known findings: umask, "
      "ulimit. Not decided: that every piece of semantic state lives in Shell.",
      ST + "aggregate-field provenance, type walk, who-may-call with dominating guards, forward taint", "DESIGN.md §3 C12")
claim("C17",
      "Decides that every tokio::spawn in brush_core is registered as a job on all paths / joined in place / a reviewed detached spawn, "
      "that wait→wait_all→Job::wait→JobTask::wait is a chain of awaits inside loops whose only exit is exhaustion (no error exit leaves "
      "early, awaited tasks are always removed, no link polls), and that job ids are not derived from the table length.",
      "Trusted: rustc MIR; tokio JoinHandle semantics. Not decided: happens-before of job effects, output ordering, schedules.",
      ST + "forward taint + PAIR + loop-exit analysis + def-use", "DESIGN.md §3 C17")
claim("C20",
      "Decides that an item written by History::flush is marked clean on every path back to the loop head, that the skip edge depends on "
      "the dirty flag, that imported items are constructed clean and new ones dirty, that the #epoch line precedes its command in the "
      "same iteration under write_timestamps, and the reviewed (append, unsaved-only) modes of all flush callers.",
      "Trusted: rustc MIR; format literals recovered from macro call-site snippets. Not decided: file contents over all interleavings.",
      ST + "must-pass-through on MIR CFG, aggregate-constant inspection, who-may-call", "DESIGN.md §3 C20")

for p in ("C01", "C04", "C06", "C07", "C08", "C13", "C14", "C15", "C19"):
    na(p, "rules for this property are designed (DESIGN.md §3) but not yet implemented in this revision; not claimed until they run")
na("C05", "argument-list equality with bash over words x IFS x directory trees is a runtime quantity; no structural clause that is a "
          "necessary condition and stable under behaviour-preserving rewrites was found beyond those decided under C04 (DESIGN.md §3 C05)")
