CLAIMS = {}
NA = {}


def claim(pid, text, note, technique, design_ref):
    CLAIMS[pid] = dict(text=text, note=note, technique=technique, design_ref=design_ref)
    NA.pop(pid, None)


def na(pid, reason):
    if pid not in CLAIMS:
        NA[pid] = reason


ST = "static analysis: "

claim("C16",
      "Decides, for every path of the three front-ends and of invoke_trap_handler in the current source, the exit-hook protocol: "
      "on_exit is called from exactly the front-ends, once, outside loops, on every non-unwind path after user code may have run "
      "(`?` exits discharged only by callee summaries computed from MIR); only on_exit fires the EXIT handler; enter/leave and $? "
      "save/restore bracket every handler run; exec never reaches the hook. This is the all-paths quantifier the tests cannot reach; "
      "it is a necessary condition for 'exactly once', not the runtime behaviour itself.",
      "Trusted: rustc MIR and callee resolution; await modelled as the call of the awaited fn; unwind/cancellation edges are not exits. "
      "Not decided: output ordering, $? value seen by the handler, handler-calls-exit semantics, errexit/nounset termination inside the interpreter.",
      ST + "MIR CFG must-pass-through + who-may-call + callee summaries", "DESIGN.md §3 C16")
claim("C18",
      "Decides that every internal stack acquire (script/function/trap/command-string/interactive frames, trap-delivery block, env "
      "scopes, command ScopeGuard) has its release on every normal path of every caller in the current source, that wrapper halves "
      "push/pop atomically, that raw pushes and leak primitives occur only at reviewed sites, and that OpenFile holds descriptors only "
      "in RAII owners. Necessary condition for 'no leak per command' on all paths including error returns.",
      "Trusted: rustc MIR; cancellation of a future is not a normal exit; Arc/Drop semantics of std. Not decided: unreaped children, "
      "equality of the k-th iteration with the first.",
      ST + "PAIR (acquire/release post-dominance on MIR CFG) + who-may-call + type inspection", "DESIGN.md §3 C18")

for p in ("C01", "C02", "C03", "C04", "C06", "C07", "C08", "C09", "C10", "C11", "C12", "C13", "C14", "C15", "C17", "C19", "C20"):
    na(p, "rules for this property are designed (DESIGN.md §3) but not yet implemented in this revision; not claimed until they run")
na("C05", "argument-list equality with bash over words x IFS x directory trees is a runtime quantity; no structural clause that is a "
          "necessary condition and stable under behaviour-preserving rewrites was found beyond those decided under C04 (DESIGN.md §3 C05)")
