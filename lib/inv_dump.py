"""dev helper: print the residual (non-generated, non-auto, non-table) inventory sites with source text"""
import sys, os, collections
sys.path.insert(0, os.path.dirname(os.path.abspath(__file__)))
sys.path.insert(0, os.path.dirname(os.path.dirname(os.path.abspath(__file__))))
import extract, facts
from rules import c01
fdir, info = extract.ensure_facts()
prog = facts.Program(fdir)
sites, nb = c01._enumerate(prog)
table = c01._load_table()
res = collections.OrderedDict()
for s in sites:
    if c01._gen_crate(s.exp) is not None: continue
    if c01._is_debug_only(s.exp) and s.kind == "panic": continue
    if c01.auto_discharge(s): continue
    res.setdefault((s.fn, s.kind), []).append(s)
filt = sys.argv[1] if len(sys.argv) > 1 else ""
srcs = {}
n = 0
for (fn, kind), ss in sorted(res.items(), key=lambda kv: (kv[1][0].file, kv[1][0].line)):
    e = table.get((fn, kind))
    if e is not None and len(ss) <= e["count"]: continue
    if filt and filt not in fn and filt not in kind and filt not in ss[0].file: continue
    print("== %s | %s | x%d" % (fn, kind, len(ss)))
    for s in ss:
        f = os.path.join("/repo", s.file)
        if f not in srcs:
            try: srcs[f] = open(f).read().split("\n")
            except OSError: srcs[f] = []
        ln = srcs[f][s.line - 1].strip() if 0 < s.line <= len(srcs[f]) else "?"
        print("   %s:%d: %s" % (s.file, s.line, ln[:150]))
        n += 1
print(n, "sites", file=sys.stderr)
