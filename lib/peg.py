"""E3 — reader for `peg::parser!{ grammar g() for T { ... } }` blocks (rust-peg syntax).
Token-level: strings, chars, comments and nested delimiters are understood; rule bodies are split
into ordered alternatives and sequence elements; `precedence!{}` blocks into levels. This is
inspection of a declarative table in the source, not execution."""
import re


class Tok:
    __slots__ = ("kind", "text", "line")

    def __init__(self, kind, text, line):
        self.kind = kind   # 'str' | 'char' | 'ident' | 'punct' | 'num' | 'lifetime'
        self.text = text
        self.line = line

    def __repr__(self):
        return "%s:%r" % (self.kind, self.text)


_PUNCT3 = ("..=", "<<=", ">>=")
_PUNCT2 = ("->", "=>", "::", "..", "--", "&&", "||", "==", "!=", "<=", ">=", "<<", ">>", "{?")


def tokenize(src):
    toks = []
    i = 0
    n = len(src)
    line = 1
    while i < n:
        c = src[i]
        if c == '\n':
            line += 1
            i += 1
        elif c.isspace():
            i += 1
        elif src.startswith("//", i):
            j = src.find("\n", i)
            i = n if j < 0 else j
        elif src.startswith("/*", i):
            j = src.find("*/", i)
            seg = src[i:j + 2] if j >= 0 else src[i:]
            line += seg.count("\n")
            i = n if j < 0 else j + 2
        elif c == '"':
            j = i + 1
            buf = []
            while j < n and src[j] != '"':
                if src[j] == '\\':
                    buf.append(src[j:j + 2])
                    j += 2
                else:
                    if src[j] == '\n':
                        line += 1
                    buf.append(src[j])
                    j += 1
            toks.append(Tok('str', _unescape("".join(buf)), line))
            i = j + 1
        elif c == 'r' and re.match(r'r#*"', src[i:i + 8]):
            m = re.match(r'r(#*)"', src[i:])
            hashes = m.group(1)
            end = src.find('"' + hashes, i + len(m.group(0)))
            body = src[i + len(m.group(0)):end]
            line += body.count("\n")
            toks.append(Tok('str', body, line))
            i = end + 1 + len(hashes)
        elif c == "'":
            # char literal or lifetime
            m = re.match(r"'(\\u\{[0-9a-fA-F]+\}|\\x[0-9a-fA-F]{2}|\\.|[^\\'])'", src[i:])
            if m:
                toks.append(Tok('char', _unescape(m.group(1)), line))
                i += len(m.group(0))
            else:
                m = re.match(r"'[A-Za-z_][A-Za-z0-9_]*", src[i:])
                if m:
                    toks.append(Tok('lifetime', m.group(0), line))
                    i += len(m.group(0))
                else:
                    toks.append(Tok('punct', c, line))
                    i += 1
        elif c.isalpha() or c == '_':
            m = re.match(r"[A-Za-z_][A-Za-z0-9_]*", src[i:])
            toks.append(Tok('ident', m.group(0), line))
            i += len(m.group(0))
        elif c.isdigit():
            m = re.match(r"[0-9][0-9a-zA-Z_]*", src[i:])
            toks.append(Tok('num', m.group(0), line))
            i += len(m.group(0))
        else:
            for p in _PUNCT3 + _PUNCT2:
                if src.startswith(p, i):
                    toks.append(Tok('punct', p, line))
                    i += len(p)
                    break
            else:
                toks.append(Tok('punct', c, line))
                i += 1
    return toks


def _unescape(s):
    out = []
    i = 0
    while i < len(s):
        if s[i] == '\\' and i + 1 < len(s):
            c = s[i + 1]
            m = {'n': '\n', 't': '\t', 'r': '\r', '0': '\0', '\\': '\\', "'": "'", '"': '"'}
            if c in m:
                out.append(m[c])
                i += 2
            elif c == 'x':
                out.append(chr(int(s[i + 2:i + 4], 16)))
                i += 4
            elif c == 'u':
                j = s.find('}', i)
                out.append(chr(int(s[i + 3:j], 16)))
                i = j + 1
            else:
                out.append(c)
                i += 2
        else:
            out.append(s[i])
            i += 1
    return "".join(out)


OPEN = {'(': ')', '[': ']', '{': '}', '{?': '}'}
CLOSE = {')', ']', '}'}


def _match(toks, i):
    """toks[i] is an opener; return index of its closer"""
    depth = 0
    j = i
    while j < len(toks):
        t = toks[j]
        if t.kind == 'punct' and t.text in OPEN:
            depth += 1
        elif t.kind == 'punct' and t.text in CLOSE:
            depth -= 1
            if depth == 0:
                return j
        j += 1
    return len(toks) - 1


def grammars(src):
    """dict grammar name -> token list of its body"""
    toks = tokenize(src)
    out = {}
    i = 0
    while i < len(toks) - 3:
        if toks[i].kind == 'ident' and toks[i].text == 'grammar' and toks[i + 1].kind == 'ident':
            name = toks[i + 1].text
            j = i + 2
            while j < len(toks) and not (toks[j].kind == 'punct' and toks[j].text == '{'):
                j += 1
            k = _match(toks, j)
            out[name] = toks[j + 1:k]
            i = k
        i += 1
    return out


def rules(gtoks):
    """ordered dict rule name -> body tokens (after '=')"""
    out = {}
    i = 0
    n = len(gtoks)
    starts = []
    depth = 0
    for idx, t in enumerate(gtoks):
        if t.kind == 'punct' and t.text in OPEN:
            depth += 1
        elif t.kind == 'punct' and t.text in CLOSE:
            depth -= 1
        elif depth == 0 and t.kind == 'ident' and t.text == 'rule' and idx + 1 < n and gtoks[idx + 1].kind == 'ident':
            starts.append(idx)
    for si, s in enumerate(starts):
        e = starts[si + 1] if si + 1 < len(starts) else n
        name = gtoks[s + 1].text
        # find '=' at depth 0 after the signature
        j = s + 2
        depth = 0
        while j < e:
            t = gtoks[j]
            if t.kind == 'punct' and t.text in OPEN:
                j = _match(gtoks, j)
            elif t.kind == 'punct' and t.text == '=':
                break
            j += 1
        body = gtoks[j + 1:e]
        # strip trailing attribute / visibility tokens that belong to the next rule (`pub(crate)`, `#[cache]`)
        while body and (body[-1].kind == 'ident' and body[-1].text in ('pub',) or
                        (body[-1].kind == 'punct' and body[-1].text in ('#',))):
            body = body[:-1]
        out[name] = body
    return out


def split_alternatives(toks):
    """split at top-level '/' into alternatives"""
    alts = []
    cur = []
    i = 0
    while i < len(toks):
        t = toks[i]
        if t.kind == 'punct' and t.text in OPEN:
            j = _match(toks, i)
            cur.extend(toks[i:j + 1])
            i = j + 1
            continue
        if t.kind == 'punct' and t.text == '/':
            alts.append(cur)
            cur = []
        else:
            cur.append(t)
        i += 1
    if cur:
        alts.append(cur)
    return alts


def elements(alt):
    """sequence elements of one alternative: list of dicts
       {kind: 'lit'|'call'|'class'|'group'|'action'|'other', text, label, prefix, suffix, toks}"""
    out = []
    i = 0
    label = None
    prefix = ""
    while i < len(alt):
        t = alt[i]
        if t.kind == 'ident' and i + 1 < len(alt) and alt[i + 1].kind == 'punct' and alt[i + 1].text == ':' \
                and not (i + 2 < len(alt) and alt[i + 2].kind == 'punct' and alt[i + 2].text == ':'):
            label = t.text
            i += 2
            continue
        if t.kind == 'punct' and t.text in ('!', '&', '$'):
            prefix += t.text
            i += 1
            continue
        el = None
        if t.kind == 'str':
            el = {"kind": "lit", "text": t.text, "toks": [t]}
            i += 1
        elif t.kind == 'punct' and t.text in ('{', '{?'):
            j = _match(alt, i)
            el = {"kind": "action", "text": " ".join(x.text for x in alt[i + 1:j]), "toks": alt[i:j + 1]}
            i = j + 1
        elif t.kind == 'punct' and t.text == '[':
            j = _match(alt, i)
            el = {"kind": "class", "text": "".join(("'%s'" % x.text) if x.kind == 'char' else x.text for x in alt[i:j + 1]), "toks": alt[i:j + 1]}
            i = j + 1
        elif t.kind == 'punct' and t.text == '(':
            j = _match(alt, i)
            inner = alt[i + 1:j]
            if len(inner) == 1 and inner[0].text == '@':
                el = {"kind": "prec", "text": "(@)", "toks": alt[i:j + 1]}
            else:
                el = {"kind": "group", "text": " ".join(x.text for x in inner), "toks": inner}
            i = j + 1
        elif t.kind == 'punct' and t.text == '@':
            el = {"kind": "prec", "text": "@", "toks": [t]}
            i += 1
        elif t.kind == 'ident':
            # rule call name(args)
            name = t.text
            j = i + 1
            args = []
            if j < len(alt) and alt[j].kind == 'punct' and alt[j].text == '(':
                k = _match(alt, j)
                args = alt[j + 1:k]
                j = k + 1
            el = {"kind": "call", "text": name, "args": args, "toks": alt[i:j]}
            i = j
        else:
            el = {"kind": "other", "text": t.text, "toks": [t]}
            i += 1
        # suffix
        suffix = ""
        while i < len(alt) and alt[i].kind == 'punct' and alt[i].text in ('?', '*', '+'):
            suffix += alt[i].text
            i += 1
        # `**`/`++` separators: (elem) ** (sep)
        el["label"] = label
        el["prefix"] = prefix
        el["suffix"] = suffix
        out.append(el)
        label = None
        prefix = ""
    return out


def precedence_levels(rule_toks):
    """for a rule whose body is `precedence!{ ... }`: list of levels; each level = list of
    alternatives (element lists). Alternatives inside a level are delimited by their action block."""
    i = 0
    while i < len(rule_toks) and not (rule_toks[i].kind == 'ident' and rule_toks[i].text == 'precedence'):
        i += 1
    if i >= len(rule_toks):
        return None
    while rule_toks[i].text != '{':
        i += 1
    j = _match(rule_toks, i)
    body = rule_toks[i + 1:j]
    levels = [[]]
    cur = []
    k = 0
    while k < len(body):
        t = body[k]
        if t.kind == 'punct' and t.text == '--':
            if cur:
                levels[-1].append(cur)
                cur = []
            levels.append([])
            k += 1
            continue
        if t.kind == 'punct' and t.text in ('{', '{?'):
            m = _match(body, k)
            cur.extend(body[k:m + 1])
            levels[-1].append(cur)
            cur = []
            k = m + 1
            continue
        if t.kind == 'punct' and t.text in OPEN:
            m = _match(body, k)
            cur.extend(body[k:m + 1])
            k = m + 1
            continue
        cur.append(t)
        k += 1
    return [[elements(a) for a in lvl] for lvl in levels if lvl]


def load(path):
    src = open(path).read()
    return {g: rules(t) for g, t in grammars(src).items()}
