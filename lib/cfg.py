"""CFG utilities over facts.Body: reachability, dominators, post-dominators, loops,
must-pass-through, control dependence. Unwind edges and coroutine-cancellation edges are
excluded unless asked for."""
from collections import deque


class CFG:
    def __init__(self, body, unwind=False, cancel=False):
        self.body = body
        bl = body.blocks
        self.n = len(bl)
        self.succ = [list(dict.fromkeys(b.term.succs(unwind=unwind, cancel=cancel))) for b in bl]
        self.pred = [[] for _ in range(self.n)]
        for i, ss in enumerate(self.succ):
            for s in ss:
                self.pred[s].append(i)
        self.reach = self.reachable_from(0)
        self._dom = None
        self._rpo = None

    # -- reachability ---------------------------------------------------------------------
    def reachable_from(self, start, avoid=(), succ=None):
        succ = succ or self.succ
        avoid = set(avoid)
        seen = set()
        if start in avoid:
            return seen
        dq = deque([start])
        seen.add(start)
        while dq:
            x = dq.popleft()
            for s in succ[x]:
                if s not in seen and s not in avoid:
                    seen.add(s)
                    dq.append(s)
        return seen

    def reachable_after(self, start, avoid=()):
        """blocks reachable from the successors of start (start itself only if on a cycle)"""
        avoid = set(avoid)
        seen = set()
        dq = deque()
        for s in self.succ[start]:
            if s not in avoid and s not in seen:
                seen.add(s)
                dq.append(s)
        while dq:
            x = dq.popleft()
            for s in self.succ[x]:
                if s not in seen and s not in avoid:
                    seen.add(s)
                    dq.append(s)
        return seen

    def path(self, start, goal_set, avoid=(), after=False):
        """shortest path (list of blocks) from start to any block in goal_set avoiding `avoid`"""
        avoid = set(avoid)
        goal_set = set(goal_set)
        prev = {}
        dq = deque()
        if after:
            for s in self.succ[start]:
                if s not in avoid and s not in prev:
                    prev[s] = start
                    dq.append(s)
        else:
            if start in avoid:
                return None
            prev[start] = None
            dq.append(start)
        while dq:
            x = dq.popleft()
            if x in goal_set:
                p = [x]
                while prev.get(p[-1]) is not None and (p[-1] != start or len(p) == 1):
                    p.append(prev[p[-1]])
                    if p[-1] == start:
                        break
                return list(reversed(p))
            for s in self.succ[x]:
                if s not in prev and s not in avoid:
                    prev[s] = x
                    dq.append(s)
        return None

    # -- exits ------------------------------------------------------------------------------
    def return_blocks(self):
        return [i for i in self.reach if self.body.blocks[i].term.kind == "return"]

    def error_exit_blocks(self):
        """blocks whose terminator is the `from_residual` call of a `?` (the Err/None arm)"""
        out = []
        for i in self.reach:
            t = self.body.blocks[i].term
            if t.kind == "call" and t.callee == "core::ops::try_trait::FromResidual::from_residual":
                out.append(i)
        return out

    # -- dominators -------------------------------------------------------------------------
    def rpo(self):
        if self._rpo is None:
            seen = set()
            order = []
            stack = [(0, iter(self.succ[0]))]
            seen.add(0)
            while stack:
                x, it = stack[-1]
                adv = False
                for s in it:
                    if s not in seen:
                        seen.add(s)
                        stack.append((s, iter(self.succ[s])))
                        adv = True
                        break
                if not adv:
                    order.append(x)
                    stack.pop()
            self._rpo = list(reversed(order))
        return self._rpo

    def dominators(self):
        """idom dict via Cooper-Harvey-Kennedy"""
        if self._dom is not None:
            return self._dom
        rpo = self.rpo()
        num = {b: i for i, b in enumerate(rpo)}
        idom = {0: 0}
        changed = True
        while changed:
            changed = False
            for b in rpo[1:]:
                ps = [p for p in self.pred[b] if p in idom]
                if not ps:
                    continue
                new = ps[0]
                for p in ps[1:]:
                    a, c = p, new
                    while a != c:
                        while num[a] > num[c]:
                            a = idom[a]
                        while num[c] > num[a]:
                            c = idom[c]
                    new = a
                if idom.get(b) != new:
                    idom[b] = new
                    changed = True
        self._dom = idom
        return idom

    def dominates(self, a, b):
        """a dominates b (reflexive)"""
        idom = self.dominators()
        if b not in idom or a not in idom:
            return False
        x = b
        while True:
            if x == a:
                return True
            if x == 0:
                return False
            x = idom[x]

    def dom_set(self, b):
        idom = self.dominators()
        out = []
        if b not in idom:
            return out
        x = b
        while True:
            out.append(x)
            if x == 0:
                break
            x = idom[x]
        return out

    # -- loops --------------------------------------------------------------------------------
    def back_edges(self):
        out = []
        for a in self.reach:
            for s in self.succ[a]:
                if self.dominates(s, a):
                    out.append((a, s))
        return out

    def natural_loops(self):
        """dict header -> set of blocks (union over back edges to that header)"""
        loops = {}
        for a, h in self.back_edges():
            body = loops.setdefault(h, {h})
            stack = [a]
            while stack:
                x = stack.pop()
                if x not in body:
                    body.add(x)
                    stack.extend(self.pred[x])
        return loops

    def source_loops(self):
        """natural loops that are not the poll loop of an `.await` (those contain a Yield and
        only the await plumbing calls)"""
        out = {}
        for h, blocks in self.natural_loops().items():
            if self.is_await_loop(blocks):
                continue
            out[h] = blocks
        return out

    AWAIT_CALLS = {"core::pin::Pin::new_unchecked", "core::future::get_context",
                   "core::future::future::Future::poll"}

    def is_await_loop(self, blocks):
        has_yield = False
        for b in blocks:
            t = self.body.blocks[b].term
            if t.kind == "yield":
                has_yield = True
            elif t.kind == "call":
                if t.callee not in self.AWAIT_CALLS:
                    return False
        return has_yield

    # -- must-pass-through ------------------------------------------------------------------------
    def escapes(self, start, through, exits, after=True, avoid=()):
        """Is there a path from (after) `start` to any block in `exits` that does not pass a block in
        `through`? Returns the witness path or None."""
        av = set(through) | set(avoid)
        ex = set(exits) - av
        return self.path(start, ex, avoid=av, after=after)

    # -- post-dominance / control dependence ---------------------------------------------------------
    def postdominates(self, a, b, exits):
        """every path from b to exits passes a (a != b allowed; reflexive)."""
        if a == b:
            return True
        return self.escapes(b, [a], exits, after=False) is None

    def controlled_by(self, target, branch_bb):
        """successors s of branch_bb such that target is reachable from s but target does not
        post-dominate branch_bb -> simple control dependence view: returns the set of successor
        blocks of branch_bb from which target is reachable."""
        out = []
        for s in self.succ[branch_bb]:
            if s == target or target in self.reachable_from(s):
                out.append(s)
        return out
