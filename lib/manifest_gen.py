"""Regenerates MANIFEST.json from the per-property table below (kept in one place so the manifest is
always valid and current)."""
import json
import os

VERIF = os.path.dirname(os.path.dirname(os.path.abspath(__file__)))

import sys
sys.path.insert(0, os.path.dirname(os.path.abspath(__file__)))
from manifest_table import CLAIMS, NA  # noqa: E402


def main():
    checks = []
    for pid in sorted(CLAIMS):
        c = CLAIMS[pid]
        checks.append({
            "property_id": pid,
            "quick_cmd": "./check %s --tier quick" % pid,
            "thorough_cmd": "./check %s --tier thorough" % pid,
            "evidence_file": "/verif/evidence/%s.json" % pid,
            "replay_cmd_template": "./check %s --replay {path}" % pid,
            "engine": "mir-facts+rules",
            "level_claimed": {"category": "other", "text": c["text"], "design_ref": c["design_ref"]},
            "level_note": c["note"],
            "technique": c["technique"],
        })
    m = {
        "version": 1,
        "setup_cmd": "python3 lib/extract.py setup",
        "hooks": {
            "guard": "reubeno_brush_verif",
            "enable": "none needed: static analysis reads /repo's MIR through a rustc driver (RUSTC_WORKSPACE_WRAPPER); no hook code exists in /repo",
            "baseline_off_cmd": "cd /repo && cargo nextest run --workspace --no-fail-fast --test-threads 8 --offline || cargo test --workspace --no-fail-fast --offline",
            "source_commits": [],
            "add_only": True,
        },
        "engines": [
            {"name": "mir-facts", "path": "driver/", "serves_properties": sorted(CLAIMS),
             "kind_free_text": "rustc_private driver (nightly) dumping post-promotion, pre-borrowck MIR (async bodies before the coroutine transform) of every workspace body as JSON facts"},
            {"name": "rules", "path": "rules/ lib/", "serves_properties": sorted(CLAIMS),
             "kind_free_text": "Python rule engine: CFG dominance / must-pass-through / pairing / who-may-call / def-use / table extraction over the MIR facts; PEG grammar reader for precedence and literal tables"},
        ],
        "checks": checks,
        "not_applicable": [{"property_id": p, "reason": r} for p, r in sorted(NA.items())],
        "notes": "Static analysis only. Every check re-extracts facts from /repo's current working tree (cached by content hash). See DESIGN.md.",
    }
    json.dump(m, open(os.path.join(VERIF, "MANIFEST.json"), "w"), indent=1)
    print("MANIFEST.json: %d checks, %d not_applicable" % (len(checks), len(NA)))


if __name__ == "__main__":
    main()
