"""Shared rule primitives: call graph, owner names, callee summaries, pairing."""
import re

from cfg import CFG
from dataflow import Defs, origins
from facts import canon

SHIPPED = ("brush_parser", "brush_core", "brush_builtins", "brush_interactive", "brush_shell")

_CLOS = re.compile(r"(::\{closure#\d+\})+$")


def owner(name):
    """function that lexically owns a closure / coroutine body"""
    return _CLOS.sub("", name)


def short(name):
    return name.rsplit("::", 1)[-1]


_cfg_cache = {}


def cfg_of(body, **kw):
    key = (id(body), tuple(sorted(kw.items())))
    c = _cfg_cache.get(key)
    if c is None:
        c = CFG(body, **kw)
        _cfg_cache[key] = c
    return c


_defs_cache = {}


def defs_of(body):
    d = _defs_cache.get(id(body))
    if d is None:
        d = Defs(body)
        _defs_cache[id(body)] = d
    return d


class CallGraph:
    """edges: body name -> set of callee names (resolved where possible) plus the closures /
    coroutines it constructs (kind 'closure')."""

    def __init__(self, prog, crates=SHIPPED):
        self.prog = prog
        self.edges = {}
        self.redges = {}
        self.sites = {}
        for b in prog.all_bodies(crates):
            es = set()
            for rb in b.raw["blocks"]:
                if rb.get("cu"):
                    continue
                t = rb["t"]
                if t["k"] == "call":
                    f = t["f"]
                    if f[0] == 'k' and "fn" in f[1]:
                        r = f[1].get("res")
                        c = canon(r) if r else None
                        if c is None:
                            c = self._synth(f[1], b.strs) or canon(f[1]["fn"])
                        es.add(c)
                for s in rb["s"]:
                    r = s.get("r")
                    if r and r.get("k") == "agg" and r.get("ak") in ("closure", "coroutine", "coroutine_closure"):
                        es.add(canon(r["def"]))
            # function items passed as values (e.g. `.map(Self::foo)`)
            for rb in b.raw["blocks"]:
                for s in rb["s"]:
                    self._fn_consts(s.get("r"), es)
                t = rb["t"]
                for a in t.get("a", []):
                    if a[0] == 'k' and "fn" in a[1]:
                        es.add(canon(a[1]["fn"]))
            self.edges[b.name] = es
            for e in es:
                self.redges.setdefault(e, set()).add(b.name)

    @staticmethod
    def _fn_consts(r, es):
        if not r:
            return
        for key in ("o", "a", "b"):
            o = r.get(key)
            if isinstance(o, list) and o and o[0] == 'k' and isinstance(o[1], dict) and "fn" in o[1]:
                es.add(canon(o[1]["fn"]))
        for o in r.get("ops", []) if isinstance(r.get("ops"), list) else []:
            if o and o[0] == 'k' and isinstance(o[1], dict) and "fn" in o[1]:
                es.add(canon(o[1]["fn"]))

    @staticmethod
    def _synth(c, strs):
        tr = c.get("trait")
        st = c.get("self")
        if tr and st is not None:
            s = canon(strs[st])
            while s.startswith('&'):
                s = s[1:]
                if s.startswith('mut '):
                    s = s[4:]
            if re.match(r"^[A-Za-z_][\w:]*$", s):
                return "<%s as %s>::%s" % (s, canon(tr), c["fn"].rsplit("::", 1)[-1])
        return None

    def reaches(self, targets):
        """set of body names from which any of `targets` is reachable (including targets)"""
        seen = set(targets)
        stack = list(targets)
        while stack:
            x = stack.pop()
            for p in self.redges.get(x, ()):
                if p not in seen:
                    seen.add(p)
                    stack.append(p)
        return seen

    def reachable_from(self, roots):
        seen = set()
        stack = [r for r in roots]
        while stack:
            x = stack.pop()
            if x in seen:
                continue
            seen.add(x)
            for e in self.edges.get(x, ()):
                if e not in seen:
                    stack.append(e)
        return seen


_cg = {}


def callgraph(prog):
    g = _cg.get(id(prog))
    if g is None:
        g = CallGraph(prog)
        _cg[id(prog)] = g
    return g


# ------------------------------------------------------------------------------------------------
def call_sites(body, names, by_suffix=False):
    """(bb, Term) of calls in non-cleanup reachable blocks whose declared or resolved callee is in
    names"""
    c = cfg_of(body)
    out = []
    for i, t in body.calls():
        if i not in c.reach:
            continue
        cands = {t.callee, t.resolved, t.best_callee()}
        if by_suffix:
            if any(x and any(x.endswith(n) for n in names) for x in cands):
                out.append((i, t))
        elif cands & set(names):
            out.append((i, t))
    return out


def try_branch_of(body, cfg, err_bb):
    """for an error-exit block (from_residual call) find the Try::branch call block feeding it"""
    seen = set()
    stack = list(cfg.pred[err_bb])
    while stack:
        x = stack.pop()
        if x in seen:
            continue
        seen.add(x)
        t = body.blocks[x].term
        if t.kind == "call" and t.callee == "core::ops::try_trait::Try::branch":
            return x, t
        if t.kind in ("goto", "switch", "drop"):
            stack.extend(cfg.pred[x])
    return None, None


def question_mark_source(body, err_bb):
    """the call (Term) whose result the `?` at err_bb tests, or None"""
    cfg = cfg_of(body)
    bb, t = try_branch_of(body, cfg, err_bb)
    if t is None:
        return None
    d = defs_of(body)
    os_ = origins(body, d, t.args[0])
    calls = [o.node for o in os_ if o.kind == 'call']
    return calls[0] if len(calls) == 1 and len(os_) == 1 else (calls[0] if calls else None)


class Summaries:
    """callee summaries computed from the callees' own MIR (never hand-written):
    no_err(F): every value F returns is `Ok(..)`."""

    def __init__(self, prog):
        self.prog = prog
        self._noerr = {}

    def no_err(self, fname, _stack=()):
        if fname in self._noerr:
            return self._noerr[fname]
        if fname in _stack:
            return False
        body = self.prog.impl_body(fname)
        if body is None:
            self._noerr[fname] = False
            return False
        res = self._no_err_body(body, _stack + (fname,))
        self._noerr[fname] = res
        return res

    def _no_err_body(self, body, stack):
        if "core::result::Result<" not in body.ret and "Result<" not in body.raw.get("ret", ""):
            # coroutine bodies carry the output type only in the parent's signature; fall through
            pass
        d = defs_of(body)
        c = cfg_of(body)
        ds = [x for x in d.of(0) if x[1] in c.reach and not body.blocks[x[1]].cleanup]
        if not ds:
            return False
        for kind, bb, idx, node in ds:
            if kind == 'assign':
                srcs = origins(body, d, node.rv.ops[0]) if node.rv.kind == 'use' else None
                if node.rv.kind == 'agg':
                    if node.rv.adt == "core::result::Result" and node.rv.variant == "Ok":
                        continue
                    return False
                if srcs is None:
                    return False
            else:
                t = node
                if t.callee == "core::ops::try_trait::FromResidual::from_residual":
                    src = question_mark_source(body, bb)
                    if src is not None and self.no_err(src.best_callee(), stack):
                        continue  # dead Err arm
                    return False
                srcs = [_call_origin(t)]
            for o in srcs:
                if o.kind == 'agg':
                    if o.node.adt == "core::result::Result" and o.node.variant == "Ok" and not o.path:
                        continue
                    return False
                if o.kind == 'call':
                    if self.no_err(o.node.best_callee(), stack):
                        continue
                    return False
                return False
        return True


    # ---------------------------------------------------------------------------------------
    def err_kinds(self, fname):
        """set of `ErrorKind` variants of every Err value `fname` can return, or None if some
        error value is not a literal `ErrorKind::X.into()` (unknown)."""
        body = self.prog.impl_body(fname)
        if body is None:
            return None
        d = defs_of(body)
        c = cfg_of(body)
        kinds = set()
        for kind, bb, idx, node in d.of(0):
            if bb not in c.reach or body.blocks[bb].cleanup:
                continue
            if kind == 'assign':
                rv = node.rv
                srcs = [type("O", (), {"kind": "agg", "node": rv, "path": ()})()] if rv.kind == 'agg' else origins(body, d, rv.ops[0])
            else:
                t = node
                if t.callee == "core::ops::try_trait::FromResidual::from_residual":
                    src = question_mark_source(body, bb)
                    if src is not None and self.no_err(src.best_callee()):
                        continue
                    return None
                if self.no_err(t.best_callee()):
                    continue
                return None
            for o in srcs:
                if o.kind == 'agg' and o.node.adt == "core::result::Result":
                    if o.node.variant == "Ok":
                        continue
                    inner = origins(body, d, o.node.ops[0])
                    for io in inner:
                        if io.kind == 'agg' and io.node.adt == "brush_core::error::ErrorKind":
                            kinds.add(io.node.variant)
                        else:
                            return None
                elif o.kind == 'call' and self.no_err(o.node.best_callee()):
                    continue
                else:
                    return None
        return kinds

    def err_only_before(self, fname, user_fns):
        """ErrOnlyBeforeUserCode: every error exit of fname is unreachable from its calls into
        `user_fns`, except `?` on NoErr callees. Returns (bool, reason)"""
        body = self.prog.impl_body(fname)
        if body is None:
            return False, "no body"
        d = defs_of(body)
        c = cfg_of(body)
        ubbs = [bb for bb, t in body.calls() if bb in c.reach and t.best_callee() in user_fns]
        after = set()
        for u in ubbs:
            after |= c.reachable_after(u)
        for kind, bb, idx, node in d.of(0):
            if bb not in c.reach or body.blocks[bb].cleanup:
                continue
            ok = False
            if kind == 'assign':
                rv = node.rv
                if rv.kind == 'agg' and rv.adt == "core::result::Result" and rv.variant == "Ok":
                    ok = True
                elif rv.kind == 'use':
                    os_ = origins(body, d, rv.ops[0])
                    ok = all((o.kind == 'agg' and o.node.adt == "core::result::Result" and o.node.variant == "Ok")
                             or (o.kind == 'call' and self.no_err(o.node.best_callee())) for o in os_)
            else:
                t = node
                if t.callee == "core::ops::try_trait::FromResidual::from_residual":
                    src = question_mark_source(body, bb)
                    ok = src is not None and self.no_err(src.best_callee())
                else:
                    ok = self.no_err(t.best_callee())
            if ok:
                continue
            if bb in after:
                return False, "error exit at block %d (line %s) is reachable after user code" % (bb, body.blocks[bb].term.line)
        return True, "all error exits precede the first user-code call"


class _CallOrigin:
    def __init__(self, t):
        self.kind = 'call'
        self.node = t
        self.path = ()


def _call_origin(t):
    return _CallOrigin(t)


# ------------------------------------------------------------------------------------------------
def pair_escapes(body, acq_bb, release_bbs, summ=None, extra_avoid=()):
    """PAIR: every non-unwind, non-cancel path from after the acquire at acq_bb to a Return passes a
    block in release_bbs. Yields (key, message, path) for every distinct escaping exit.
    The acquire's own `?` (acquire failed => nothing acquired) is not an escape; a `?` on a callee
    that is NoErr by its MIR (dead Err arm) is not an escape."""
    c = cfg_of(body)
    rets = c.return_blocks()
    acq_t = body.blocks[acq_bb].term
    avoid = set(extra_avoid)
    info = {}
    for e in c.error_exit_blocks():
        src = question_mark_source(body, e)
        info[e] = src
        if src is acq_t:
            avoid.add(e)
        elif src is not None and summ is not None and summ.no_err(src.best_callee()):
            avoid.add(e)
    out = []
    seen = set()
    while True:
        p = c.escapes(acq_bb, release_bbs, rets, after=True, avoid=avoid)
        if p is None:
            break
        errs = [x for x in p if x in info]
        if errs:
            e = errs[0]
            src = info[e]
            nm = src.best_callee() if src is not None else "unknown"
            avoid.add(e)
            key = "?:" + nm
            if key in seen:
                continue
            seen.add(key)
            line = src.line if src is not None else body.blocks[e].term.line
            out.append((key, "`?` on %s at %s exits between acquire (line %s) and release" % (nm, body.loc(line), acq_t.line), p))
        else:
            out.append(("normal-path", "a non-error path from the acquire at line %s reaches Return without the release: blocks %s" % (acq_t.line, p), p))
            break
    return out


# ------------------------------------------------------------------------------------------------
def enum_switches(prog, body, enum_name):
    """switches on the discriminant of a place of enum `enum_name`:
    list of (bb, {variant_name: target_bb}, otherwise_bb, discr_place)"""
    c = cfg_of(body)
    d = defs_of(body)
    variants = prog.enums.get(enum_name, {})
    out = []
    for bl in body.blocks:
        t = bl.term
        if t.kind != "switch" or bl.idx not in c.reach or bl.cleanup:
            continue
        for o in origins(body, d, t.discr):
            if o.kind == 'op' and o.node.kind == 'discr' and o.node.enum == enum_name:
                m = {}
                for v, tgt in t.targets:
                    m[variants.get(v, "#%s" % v)] = tgt
                rest = [n for n in variants.values() if n not in m]
                out.append((bl.idx, m, t.otherwise, rest, o.node.place))
                break
    return out


def arm_regions(body, sw_bb, targets):
    """blocks exclusive to each arm of the switch at sw_bb: reachable from that arm's target (not
    passing the switch again) and from no other arm's target. `targets`: {name: bb}"""
    c = cfg_of(body)
    reach = {n: c.reachable_from(t, avoid=[sw_bb]) for n, t in targets.items()}

    def chain(t):
        """the straight-line prologue of an arm (or-patterns bind their fields in separate blocks, then join)"""
        seen = [t]
        x = t
        for _ in range(6):
            tt = body.blocks[x].term
            if tt.kind != "goto":
                break
            x = tt.target
            seen.append(x)
        return set(seen)
    chains = {n: chain(t) for n, t in targets.items()}
    out = {}
    for n in targets:
        others = set()
        for m, r in reach.items():
            if targets[m] != targets[n] and not (chains[m] & chains[n]):
                others |= r
        out[n] = reach[n] - others
    return out


def switches_on_call(body, callee_suffixes, through_ops=True):
    """switch blocks whose discriminant originates from a call to one of the callees
    (by suffix): list of (bb, Term, origin call Term)"""
    c = cfg_of(body)
    d = defs_of(body)
    out = []
    for bl in body.blocks:
        t = bl.term
        if t.kind != "switch" or bl.idx not in c.reach or bl.cleanup:
            continue
        for o in origins(body, d, t.discr, through_ops=through_ops):
            if o.kind == 'call' and any((o.node.best_callee() or "").endswith(s) for s in callee_suffixes):
                out.append((bl.idx, t, o.node))
                break
    return out


def switches_on_field(body, field, through_ops=True):
    c = cfg_of(body)
    d = defs_of(body)
    out = []
    for bl in body.blocks:
        t = bl.term
        if t.kind != "switch" or bl.idx not in c.reach or bl.cleanup:
            continue
        if any(field in o.field_path() for o in origins(body, d, t.discr, through_ops=through_ops)):
            out.append((bl.idx, t))
    return out


def bool_edges(t):
    """(false_target, true_target) of a switch on a bool"""
    f = [tg for v, tg in t.targets if v == 0]
    return (f[0] if f else None), t.otherwise


def resolve_bool_arm(body, target, max_steps=8):
    """`matches!(x, P)` lowers to `_t = const true/false` in the arm followed by a switch on `_t`.
    From an arm target, follow straight-line blocks and resolve that switch with the constant just
    stored (removes the infeasible cross edge). Returns the resolved successor block."""
    consts = {}
    x = target
    for _ in range(max_steps):
        bl = body.blocks[x]
        for st in bl.stmts:
            if st.kind == 'a' and st.place.is_local() and st.rv.kind == 'use' and st.rv.ops[0].const is not None \
                    and st.rv.ops[0].const.value is not None:
                consts[st.place.local] = st.rv.ops[0].const.value
        t = bl.term
        if t.kind == "goto":
            x = t.target
            continue
        if t.kind == "switch" and t.discr.place is not None and t.discr.place.is_local() and t.discr.place.local in consts:
            v = consts[t.discr.place.local]
            for val, tg in t.targets:
                if val == v:
                    return tg
            return t.otherwise
        return target
    return target
