"""Fact base loader: turns the driver's JSON into Program / Body / Block objects.

Names: every def-path is *canonicalised* (`canon`) so that rules never depend on the module an
`impl` block lives in, on generic parameter lists, or on turbofish arguments:

  brush_core::shell::traps::<impl brush_core::shell::Shell<SE>>::on_exit  -> brush_core::shell::Shell::on_exit
  <brush_parser::ast::Pipeline as brush_core::interp::Execute>::execute   -> unchanged
  core::pin::Pin::<Ptr>::new_unchecked                                    -> core::pin::Pin::new_unchecked
"""
import glob
import json
import os
import re

_IDENT = re.compile(r"[A-Za-z0-9_}\])]")


def _match_angle(s, i):
    """s[i] == '<' ; return index of the matching '>' (skipping '->' and '=>')."""
    depth = 0
    n = len(s)
    j = i
    while j < n:
        c = s[j]
        if c == '<':
            depth += 1
        elif c == '>':
            if j > 0 and s[j - 1] in '-=':
                j += 1
                continue
            depth -= 1
            if depth == 0:
                return j
        j += 1
    return n - 1


def _split_top(s, sep):
    """split s at the first top-level occurrence of sep (outside <>, (), [])."""
    depth = 0
    i = 0
    n = len(s)
    while i < n:
        c = s[i]
        if c in '<([':
            depth += 1
        elif c in ')]':
            depth -= 1
        elif c == '>' and not (i > 0 and s[i - 1] in '-='):
            depth -= 1
        if depth == 0 and s.startswith(sep, i):
            return s[:i], s[i + len(sep):]
        i += 1
    return s, None


_canon_cache = {}


def canon(s):
    if s is None:
        return None
    r = _canon_cache.get(s)
    if r is None:
        r = _canon(s)
        _canon_cache[s] = r
    return r


def _strip_trailing_path(out):
    """remove a trailing `a::b::c::` module path from out (used in front of `<impl T>`)."""
    k = len(out)
    while k > 0 and (out[k - 1].isalnum() or out[k - 1] in '_:'):
        k -= 1
    return out[:k]


def _canon(s):
    out = ""
    i = 0
    n = len(s)
    while i < n:
        c = s[i]
        if c == '<':
            j = _match_angle(s, i)
            inner = s[i + 1:j]
            if out.endswith('::'):
                if inner.startswith('impl '):
                    t = inner[5:]
                    a, b = _split_top(t, ' for ')
                    out = _strip_trailing_path(out)
                    if b is not None:
                        out += '<' + _canon(b) + ' as ' + _canon_trait(a) + '>'
                    else:
                        out += _canon(a)
                else:
                    out = out[:-2]  # turbofish
            elif out and _IDENT.match(out[-1]) and not out.endswith(' as') :
                pass  # generic argument list: dropped
            else:
                a, b = _split_top(inner, ' as ')
                if b is not None:
                    out += '<' + _canon(a) + ' as ' + _canon_trait(b) + '>'
                else:
                    out += '<' + _canon(inner) + '>'
            i = j + 1
        else:
            out += c
            i += 1
    return out


_TYPARAM = re.compile(r"^('?[A-Za-z_][A-Za-z0-9_]*)$")


def _canon_trait(t):
    """canonical trait path that *keeps* concrete generic arguments (`From<WordField>`), because distinct
    impls of one generic trait for one type differ only there; arguments that are bare type parameters or
    lifetimes (`<SE>`, `<'a, T>`) are dropped."""
    t = t.strip()
    k = t.find('<')
    if k < 0 or not t.endswith('>'):
        return _canon(t)
    head, args = t[:k], t[k + 1:-1]
    parts = []
    depth = 0
    cur = ""
    for ch in args:
        if ch in '<([':
            depth += 1
        elif ch in ')]' or ch == '>':
            depth -= 1
        if ch == ',' and depth == 0:
            parts.append(cur.strip())
            cur = ""
        else:
            cur += ch
    if cur.strip():
        parts.append(cur.strip())
    keep = [p for p in parts if not (_TYPARAM.match(p) and ("::" not in p) and (p[:1].isupper() or p.startswith("'")))]
    if not keep or len(keep) != len(parts):
        if not keep:
            return _canon(head)
    return _canon(head) + '<' + ", ".join(_canon(p) for p in parts) + '>'


class Place:
    __slots__ = ("local", "proj")

    def __init__(self, raw, strs):
        self.local = raw[0]
        pr = []
        for e in raw[1]:
            if isinstance(e, str):
                pr.append((e,))
            elif e[0] == 'f':
                pr.append(('f', e[1], strs[e[2]], e[3]))
            else:
                pr.append(tuple(e))
        self.proj = tuple(pr)

    def fields(self):
        """list of (owner adt path, field name) along the projection"""
        return [(canon(p[2]), p[3]) for p in self.proj if p[0] == 'f']

    def field_names(self):
        return [p[3] for p in self.proj if p[0] == 'f']

    def is_local(self):
        return not self.proj

    def key(self):
        return (self.local, self.proj)

    def __repr__(self):
        s = "_%d" % self.local
        for p in self.proj:
            if p[0] == '*':
                s = "(*%s)" % s
            elif p[0] == 'f':
                s += "." + p[3]
            elif p[0] == 'd':
                s = "(%s as %s)" % (s, p[1])
            elif p[0] == 'i':
                s += "[_%d]" % p[1]
            else:
                s += "[%s]" % (p[0],)
        return s


class Const:
    __slots__ = ("raw", "strs")

    def __init__(self, raw, strs):
        self.raw = raw
        self.strs = strs

    @property
    def fn(self):
        return self.raw.get("fn")

    @property
    def value(self):
        return self.raw.get("v")

    @property
    def string(self):
        return self.raw.get("s")

    @property
    def def_path(self):
        return self.raw.get("def")

    @property
    def static(self):
        return self.raw.get("static")

    @property
    def ty(self):
        t = self.raw.get("ty")
        return self.strs[t] if t is not None else None

    def __repr__(self):
        if self.fn:
            return "fn:" + canon(self.fn)
        if "v" in self.raw:
            return "const %s:%s" % (self.raw["v"], self.ty)
        if "s" in self.raw:
            return "const %r" % self.raw["s"]
        if "def" in self.raw:
            return "const " + self.raw["def"]
        return "const ?:%s" % self.ty


class Operand:
    __slots__ = ("kind", "place", "const")

    def __init__(self, raw, strs):
        self.kind = raw[0]
        self.place = None
        self.const = None
        if self.kind in ('c', 'm'):
            self.place = Place(raw[1], strs)
        elif self.kind == 'k':
            self.const = Const(raw[1], strs)

    def __repr__(self):
        if self.place is not None:
            return ("move " if self.kind == 'm' else "") + repr(self.place)
        return repr(self.const)


class Stmt:
    __slots__ = ("kind", "place", "rv", "line", "exp", "raw", "file")


class Rvalue:
    __slots__ = ("kind", "raw", "strs", "ops", "place")

    def __init__(self, raw, strs):
        self.kind = raw["k"]
        self.raw = raw
        self.strs = strs
        self.ops = []
        self.place = None
        if "o" in raw:
            self.ops = [Operand(raw["o"], strs)]
        if "a" in raw and self.kind in ("bin", "un"):
            self.ops = [Operand(raw["a"], strs)]
            if "b" in raw:
                self.ops.append(Operand(raw["b"], strs))
        if "ops" in raw:
            self.ops = [Operand(o, strs) for o in raw["ops"]]
        if "p" in raw:
            self.place = Place(raw["p"], strs)

    @property
    def op(self):
        return self.raw.get("op")

    @property
    def ty(self):
        t = self.raw.get("ty")
        return self.strs[t] if t is not None else None

    @property
    def adt(self):
        return canon(self.raw.get("adt"))

    @property
    def variant(self):
        return self.raw.get("var")

    @property
    def field_names(self):
        return self.raw.get("fn")

    @property
    def enum(self):
        e = self.raw.get("enum")
        return canon(self.strs[e]) if e is not None else None

    def field_ops(self):
        """for ADT aggregates: dict field name -> Operand"""
        names = self.raw.get("fn") or []
        return dict(zip(names, self.ops))

    def __repr__(self):
        k = self.kind
        if k == "use":
            return repr(self.ops[0])
        if k == "ref":
            return ("&mut " if self.raw.get("mut") else "&") + repr(self.place)
        if k == "bin":
            return "%s(%r, %r):%s" % (self.op, self.ops[0], self.ops[1], self.ty)
        if k == "un":
            return "%s(%r)" % (self.op, self.ops[0])
        if k == "discr":
            return "discriminant(%r)" % (self.place,)
        if k == "agg":
            nm = self.raw.get("adt") or self.raw.get("def") or self.raw.get("ak")
            if self.variant:
                nm += "::" + self.variant
            return "%s{%s}" % (canon(nm), ", ".join(map(repr, self.ops)))
        if k == "cast":
            return "%r as %s" % (self.ops[0], self.ty)
        return k


class Term:
    __slots__ = ("kind", "raw", "strs", "line", "exp", "func", "args", "dest", "target", "unwind",
                 "callee", "callee_raw", "resolved", "self_ty", "trait", "targets", "otherwise", "discr",
                 "place", "ty", "snip", "file", "gen_args")

    def __init__(self, raw, strs):
        self.kind = raw["k"]
        self.raw = raw
        self.strs = strs
        self.line = raw.get("l")
        x = raw.get("x")
        self.exp = strs[x] if x is not None else ""
        fl = raw.get("fl")
        self.file = strs[fl] if fl is not None else None
        self.func = None
        self.args = []
        self.dest = None
        self.target = raw.get("to")
        self.unwind = raw.get("uw")
        self.callee = None
        self.callee_raw = None
        self.resolved = None
        self.self_ty = None
        self.trait = None
        self.gen_args = None
        self.targets = None
        self.otherwise = None
        self.discr = None
        self.place = None
        self.ty = None
        self.snip = raw.get("snip")
        k = self.kind
        if k in ("call", "tailcall"):
            self.func = Operand(raw["f"], strs)
            self.args = [Operand(a, strs) for a in raw["a"]]
            if "d" in raw:
                self.dest = Place(raw["d"], strs)
            c = self.func.const
            if c is not None and c.fn:
                self.callee_raw = c.fn
                self.callee = canon(c.fn)
                r = c.raw.get("res")
                self.resolved = canon(r) if r else None
                st = c.raw.get("self")
                self.self_ty = strs[st] if st is not None else None
                self.trait = canon(c.raw.get("trait")) if c.raw.get("trait") else None
                ga = c.raw.get("args")
                self.gen_args = strs[ga] if ga is not None else None
        elif k == "switch":
            self.discr = Operand(raw["d"], strs)
            self.targets = [(v, t) for v, t in raw["tg"]]
            self.otherwise = raw["else"]
            self.ty = strs[raw["ty"]]
        elif k == "drop":
            self.place = Place(raw["p"], strs)
            self.ty = strs[raw["ty"]]
        elif k == "assert":
            self.args = [Operand(a, strs) for a in raw["ops"]]
            self.discr = Operand(raw["c"], strs)
        elif k == "yield":
            pass

    def best_callee(self):
        """resolved impl method if known, else the (trait) callee; for trait calls with a
        concrete self type that rustc did not resolve, `<Self as Trait>::m` is synthesised."""
        if self.resolved:
            return self.resolved
        if self.trait and self.self_ty and self.callee:
            st = canon(self.self_ty)
            st = st.lstrip('&').replace('mut ', '') if st.startswith('&') else st
            m = self.callee.rsplit("::", 1)[-1]
            if re.match(r"^[A-Za-z_][\w:]*$", st):
                return "<%s as %s>::%s" % (st, self.trait, m)
        return self.callee

    def succs(self, unwind=False, cancel=False):
        k = self.kind
        out = []
        if k == "goto":
            out.append(self.target)
        elif k == "switch":
            out.extend(t for _, t in self.targets)
            out.append(self.otherwise)
        elif k in ("call", "drop", "assert"):
            if self.target is not None:
                out.append(self.target)
            if unwind and self.unwind is not None:
                out.append(self.unwind)
        elif k == "yield":
            out.append(self.target)
            if cancel and self.raw.get("drop") is not None:
                out.append(self.raw["drop"])
        return out

    def __repr__(self):
        k = self.kind
        if k == "call":
            return "call %s(%s) -> %r" % (self.best_callee() or repr(self.func), ", ".join(map(repr, self.args)), self.dest)
        if k == "switch":
            return "switch %r:%s %s else %s" % (self.discr, self.ty, self.targets, self.otherwise)
        if k == "drop":
            return "drop %r:%s" % (self.place, self.ty)
        if k == "assert":
            return "assert %s %r" % (self.raw.get("mk"), self.args)
        return k


class Block:
    __slots__ = ("idx", "stmts", "term", "cleanup")


class Body:
    def __init__(self, raw, crate):
        self.raw = raw
        self.crate = crate
        self.path = raw["path"]
        self.name = canon(self.path)
        self.kind = raw["kind"]
        self.vis = raw.get("vis")
        self.root = canon(raw.get("root"))
        self.parent = canon(raw.get("parent")) if raw.get("parent") else None
        self.impl_of = raw.get("impl_of")
        self.trait_of = canon(raw.get("trait_of")) if raw.get("trait_of") else None
        self.file = raw["file"]
        self.line = raw["line"]
        self.argc = raw["argc"]
        self.ret = raw["ret"]
        strs = raw["strs"]
        self.strs = strs
        self.local_tys = [strs[l["t"]] for l in raw["locals"]]
        self.local_names = [l.get("n") for l in raw["locals"]]
        self.upvars = {u[0]: u[1] for u in raw.get("upvars", [])}
        self._blocks = None
        self._cfg = None

    @property
    def blocks(self):
        if self._blocks is None:
            strs = self.strs
            bl = []
            for i, rb in enumerate(self.raw["blocks"]):
                b = Block()
                b.idx = i
                b.cleanup = bool(rb.get("cu"))
                b.stmts = []
                for rs in rb["s"]:
                    s = Stmt()
                    s.raw = rs
                    s.kind = rs["k"]
                    s.line = rs.get("l")
                    x = rs.get("x")
                    s.exp = strs[x] if x is not None else ""
                    f = rs.get("f")
                    s.file = strs[f] if f is not None else None
                    s.place = Place(rs["p"], strs) if "p" in rs else None
                    s.rv = Rvalue(rs["r"], strs) if "r" in rs else None
                    b.stmts.append(s)
                b.term = Term(rb["t"], strs)
                bl.append(b)
            self._blocks = bl
        return self._blocks

    def local_ty(self, l):
        return self.local_tys[l]

    def local_name(self, l):
        return self.local_names[l]

    def loc(self, line=None):
        return "%s:%s" % (self.file, line if line is not None else self.line)

    def calls(self):
        """yield (bb index, Term) for every call terminator in non-cleanup blocks"""
        for b in self.blocks:
            if b.cleanup:
                continue
            if b.term.kind in ("call", "tailcall"):
                yield b.idx, b.term

    def calls_to(self, *names, resolved=True):
        out = []
        for i, t in self.calls():
            c = t.best_callee() if resolved else t.callee
            if c in names or t.callee in names:
                out.append((i, t))
        return out

    def __repr__(self):
        return "<Body %s>" % self.name


class Program:
    def __init__(self, facts_dir, crates=None):
        self.facts_dir = facts_dir
        self.bodies = {}
        self.by_crate = {}
        self.adts = {}
        self.impls = []
        self.fns = {}
        self.enums = {}
        self.statics = []
        self.dups = []
        for f in sorted(glob.glob(os.path.join(facts_dir, "*.json"))):
            base = os.path.basename(f)
            if base == "COMPLETE.json":
                continue
            d = json.load(open(f))
            cr = d["crate"]
            if crates is not None and cr not in crates:
                continue
            for k, v in d["enums"].items():
                self.enums[canon(k)] = {a: b for a, b in v}
            for a in d["adts"]:
                a["crate"] = cr
                self.adts[canon(a["path"])] = a
            for im in d["impls"]:
                im["crate"] = cr
                self.impls.append(im)
            for fn in d["fns"]:
                fn["crate"] = cr
                self.fns[canon(fn["path"])] = fn
            for s in d["statics"]:
                s["crate"] = cr
                self.statics.append(s)
            for rb in d["bodies"]:
                b = Body(rb, cr)
                key = b.name
                if "Executable" in base and cr != "brush":
                    key = "[bin]" + key
                if key in self.bodies:
                    self.dups.append(key)
                    continue
                self.bodies[key] = b
                self.by_crate.setdefault(cr, []).append(b)

    def body(self, name):
        return self.bodies.get(name)

    def impl_body(self, name):
        """the body that holds the code of `name`: for async fns / async_trait methods this is the
        coroutine `name::{closure#0}`"""
        b = self.bodies.get(name)
        if b is None:
            return None
        if b.ret.startswith("impl core::future::future::Future") or "core::pin::Pin<alloc::boxed::Box<dyn core::future::future::Future" in b.ret:
            # find the coroutine aggregate constructed in this body
            for bl in b.blocks:
                for s in bl.stmts:
                    if s.rv is not None and s.rv.kind == "agg" and s.rv.raw.get("ak") == "coroutine":
                        inner = self.bodies.get(canon(s.rv.raw["def"]))
                        if inner is not None:
                            return inner
        return b

    def find(self, suffix):
        return [b for n, b in self.bodies.items() if n.endswith(suffix)]

    def all_bodies(self, crates=None):
        for n, b in self.bodies.items():
            if crates is None or b.crate in crates:
                yield b

    def callers_of(self, *names, crates=None):
        """list of (body, bb, term) calling any of names (by resolved or declared callee)"""
        out = []
        ns = set(names)
        for b in self.all_bodies(crates):
            for idx, rb in enumerate(b.raw["blocks"]):
                t = rb["t"]
                if t["k"] != "call":
                    continue
                f = t["f"]
                if f[0] != 'k' or "fn" not in f[1]:
                    continue
                if rb.get("cu"):
                    continue
                c = canon(f[1]["fn"])
                r = canon(f[1].get("res")) if f[1].get("res") else None
                if c in ns or (r and r in ns):
                    out.append((b, idx, b.blocks[idx].term))
        return out
