"""Evidence / violation / known-finding plumbing shared by all rule modules."""
import json
import os
import time

VERIF = os.path.dirname(os.path.dirname(os.path.abspath(__file__)))
KNOWN = os.path.join(VERIF, "known_findings.json")


def load_known():
    if not os.path.exists(KNOWN):
        return []
    return json.load(open(KNOWN)).get("findings", [])


class Check:
    def __init__(self, pid, tier, seed=0):
        self.pid = pid
        self.tier = tier
        self.seed = seed
        self.t0 = time.time()
        self.obligations = []   # dicts: rule, key, ok, nontrivial, detail
        self.violations = []    # dicts: rule, function, key, msg, detail
        self.notes = {}
        self.rules = {}         # rule id -> description
        self.assumptions = []
        self.explanation = ""
        self.info = {}
        self.config = "default"

    # -- recording ----------------------------------------------------------------------
    def rule(self, rid, text):
        self.rules[rid] = text

    def ok(self, rule, key, detail=None, nontrivial=True, function=None):
        if self.config != "default":
            key = "[%s] %s" % (self.config, key)
        self.obligations.append({"rule": rule, "key": key, "ok": True, "nontrivial": nontrivial,
                                 "function": function, "detail": detail})

    def fail(self, rule, function, key, msg, detail=None, nontrivial=True):
        self.obligations.append({"rule": rule, "key": key, "ok": False, "nontrivial": nontrivial,
                                 "function": function, "detail": msg})
        self.violations.append({"property": self.pid, "rule": rule, "function": function, "key": key,
                                "msg": msg, "detail": detail})

    def floor(self, rule, what, found, minimum):
        """fail closed when fewer instances than confirmed by hand are found"""
        if found < minimum:
            self.fail(rule, "(floor)", "floor:" + what,
                      "instance floor not met for %s: found %d, expected at least %d (anchor moved or renamed? "
                      "the rule would pass vacuously)" % (what, found, minimum), nontrivial=False)
        else:
            self.notes.setdefault("floors", {})["%s:%s" % (rule, what)] = {"found": found, "min": minimum}

    def anchor(self, rule, name, obj):
        if obj is None:
            self.fail(rule, name, "anchor-missing", "anchor not found in the fact base: %s" % name, nontrivial=False)
            return False
        return True

    def note(self, key, value):
        self.notes[key] = value

    # -- finishing -------------------------------------------------------------------------
    def finish(self):
        known = [k for k in load_known() if k.get("property") == self.pid]
        matched = []
        unlisted = []
        for v in self.violations:
            hit = None
            for k in known:
                if k.get("rule") == v["rule"] and k.get("function") == v["function"] and k.get("key") == v["key"]:
                    hit = k
                    break
            if hit is not None:
                matched.append((v, hit))
            else:
                unlisted.append(v)
        ev_dir = os.path.join(VERIF, "evidence")
        os.makedirs(os.path.join(ev_dir, "replay"), exist_ok=True)
        # stale replay files of this property
        for f in os.listdir(os.path.join(ev_dir, "replay")):
            if f.startswith(self.pid + "-"):
                os.remove(os.path.join(ev_dir, "replay", f))
        lines = []
        printed = set()
        for v, k in matched:
            kk = (k.get("rule"), k.get("function"), k.get("key"))
            if kk in printed:
                continue
            printed.add(kk)
            lines.append("KNOWN-FINDING: property=%s %s [%s %s %s]" % (self.pid, k.get("what", v["msg"]), v["rule"], v["function"], v["key"]))
        for i, v in enumerate(unlisted):
            rp = os.path.join(ev_dir, "replay", "%s-%d.json" % (self.pid, i))
            json.dump(v, open(rp, "w"), indent=1, default=str)
            lines.append("VIOLATION property=%s replay=%s" % (self.pid, rp))
            lines.append("  rule=%s function=%s key=%s\n  %s" % (v["rule"], v["function"], v["key"], v["msg"]))
        total = len(self.obligations)
        good = sum(1 for o in self.obligations if o["ok"])
        distinct_nt = len({(o["rule"], o["function"], str(o["key"])) for o in self.obligations if o["nontrivial"]})
        samples = []
        seen_rules = {}
        for o in self.obligations:
            c = seen_rules.get(o["rule"], 0)
            if c < 4:
                seen_rules[o["rule"]] = c + 1
                samples.append({"rule": o["rule"], "function": o["function"], "key": o["key"],
                                "ok": o["ok"], "detail": o["detail"]})
        per_rule = {}
        for o in self.obligations:
            r = per_rule.setdefault(o["rule"], {"instances": 0, "ok": 0})
            r["instances"] += 1
            r["ok"] += 1 if o["ok"] else 0
        ev = {
            "property_id": self.pid,
            "tier": self.tier,
            "seed": self.seed,
            "level": "other",
            "coverage": {
                "explanation": self.explanation,
                "evaluations": total,
                "distinct_nontrivial": distinct_nt,
                "rule": "one evaluation = one rule instance (call site, path obligation, table row, field, "
                        "match arm) derived from /repo's MIR or grammar source on this run; non-trivial = needed a "
                        "CFG/dataflow/table argument rather than an existence lookup; distinct by (rule, function, key)",
                "obligations": total,
                "discharged": good,
                "samples": samples,
                "rules": self.rules,
                "per_rule": per_rule,
                "known_findings_matched": [{"rule": v["rule"], "function": v["function"], "key": v["key"]} for v, _ in matched],
                "unlisted_violations": [{"rule": v["rule"], "function": v["function"], "key": v["key"], "msg": v["msg"]} for v in unlisted],
                "notes": self.notes,
                "facts": self.info,
                "exhaustive": True,
            },
            "assumptions": self.assumptions,
            "wall_s": round(time.time() - self.t0, 2),
            "violations": len(unlisted),
        }
        json.dump(ev, open(os.path.join(ev_dir, self.pid + ".json"), "w"), indent=1, default=str)
        for l in lines:
            print(l)
        print("%s %s: %d rule instances, %d discharged, %d known findings, %d violations (%.1fs)" % (
            self.pid, self.tier, total, good, len(matched), len(unlisted), time.time() - self.t0))
        return 1 if unlisted else 0
