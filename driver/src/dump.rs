//! MIR → JSON facts.

use std::collections::HashMap;
use std::fmt::Write as _;

use rustc_hir::def::DefKind;
use rustc_middle::mir::{
    self, AggregateKind, AssertKind, BasicBlock, Body, BorrowKind, Const, ConstValue, Local,
    Operand, Place, PlaceElem, Rvalue, StatementKind, TerminatorKind, UnwindAction,
    VarDebugInfoContents,
};
use rustc_middle::ty::print::{with_no_trimmed_paths, with_no_visible_paths, with_resolve_crate_name};
use rustc_middle::ty::{self, Ty, TyCtxt, TypeVisitableExt};
use rustc_span::def_id::{DefId, LocalDefId, LOCAL_CRATE};
use rustc_span::{ExpnKind, Span};

use crate::json::J;
use crate::STATE;

pub struct State {
    bodies: Vec<String>,
    enums: HashMap<String, String>,
    seen_roots: u32,
}

impl State {
    fn new() -> Self {
        State { bodies: vec![], enums: HashMap::new(), seen_roots: 0 }
    }
}

/// Per-body interner; no global lock is held while rustc queries run (queries can re-enter
/// `mir_borrowck` and hence this driver).
struct Local_ {
    strings: Vec<String>,
    index: HashMap<String, u32>,
    enums: HashMap<String, String>,
}

impl Local_ {
    fn new() -> Self {
        Local_ { strings: vec![], index: HashMap::new(), enums: HashMap::new() }
    }
    fn intern(&mut self, s: &str) -> J {
        if let Some(i) = self.index.get(s) {
            return J::I(*i as i128);
        }
        let i = self.strings.len() as u32;
        self.strings.push(s.to_string());
        self.index.insert(s.to_string(), i);
        J::I(i as i128)
    }
}

pub fn enabled(tcx: TyCtxt<'_>) -> bool {
    if std::env::var_os("BRUSH_FACTS_DIR").is_none() {
        return false;
    }
    if let Ok(list) = std::env::var("BRUSH_FACTS_CRATES") {
        let name = tcx.crate_name(LOCAL_CRATE);
        let name = name.as_str();
        return list.split(',').any(|c| c == name);
    }
    true
}

pub fn path_of(tcx: TyCtxt<'_>, def: DefId) -> String {
    with_resolve_crate_name!(with_no_visible_paths!(with_no_trimmed_paths!(tcx.def_path_str(def))))
}

fn ty_str<'tcx>(ty: Ty<'tcx>) -> String {
    with_resolve_crate_name!(with_no_visible_paths!(with_no_trimmed_paths!(format!("{}", ty))))
}

struct Cx<'a, 'tcx> {
    tcx: TyCtxt<'tcx>,
    body: &'a Body<'tcx>,
    def: LocalDefId,
    st: &'a mut Local_,
    file: String,
}

pub fn dump_root<'tcx>(tcx: TyCtxt<'tcx>, root: LocalDefId) {
    {
        let mut guard = STATE.lock().unwrap();
        let st = guard.get_or_insert_with(State::new);
        st.seen_roots += 1;
    }
    let mut defs: Vec<LocalDefId> = vec![root];
    for d in tcx.nested_bodies_within(root).iter() {
        defs.push(d);
    }
    for d in defs {
        let (steal, _promoted) = tcx.mir_promoted(d);
        if steal.is_stolen() {
            continue;
        }
        let body = steal.borrow();
        let mut local = Local_::new();
        let j = {
            let mut cx = Cx { tcx, body: &body, def: d, st: &mut local, file: String::new() };
            cx.body_json(root)
        };
        drop(body);
        let mut s = String::new();
        j.write(&mut s);
        let mut guard = STATE.lock().unwrap();
        let st = guard.get_or_insert_with(State::new);
        st.bodies.push(s);
        for (k, v) in local.enums.drain() {
            st.enums.entry(k).or_insert(v);
        }
    }
}

impl<'a, 'tcx> Cx<'a, 'tcx> {
    fn s(&mut self, s: &str) -> J {
        self.st.intern(s)
    }

    fn span_info(&mut self, span: Span) -> (J, J, J) {
        // (line at outermost call site, file if different, expansion chain)
        let sm = self.tcx.sess.source_map();
        let outer = span.source_callsite();
        let loc = sm.lookup_char_pos(outer.lo());
        let fname = format!("{}", loc.file.name.prefer_local_unconditionally());
        let f = if fname != self.file { self.s(&fname) } else { J::Null };
        let mut chain = String::new();
        if span.from_expansion() {
            for e in span.macro_backtrace() {
                match e.kind {
                    ExpnKind::Macro(_, name) => {
                        let krate = match e.macro_def_id {
                            Some(d) => self.tcx.crate_name(d.krate).to_string(),
                            None => "?".to_string(),
                        };
                        let _ = write!(chain, "{}@{};", name, krate);
                    }
                    ExpnKind::Desugaring(k) => {
                        let _ = write!(chain, "desugar:{:?};", k);
                    }
                    ExpnKind::AstPass(k) => {
                        let _ = write!(chain, "astpass:{:?};", k);
                    }
                    ExpnKind::Root => {}
                }
            }
        }
        let x = if chain.is_empty() { J::Null } else { self.s(&chain) };
        (J::I(loc.line as i128), f, x)
    }

    fn snippet(&mut self, span: Span) -> J {
        let sm = self.tcx.sess.source_map();
        let outer = span.source_callsite();
        match sm.span_to_snippet(outer) {
            Ok(mut s) => {
                if s.len() > 400 {
                    let mut n = 400;
                    while !s.is_char_boundary(n) {
                        n -= 1;
                    }
                    s.truncate(n);
                }
                J::S(s)
            }
            Err(_) => J::Null,
        }
    }

    fn body_json(&mut self, root: LocalDefId) -> J {
        let tcx = self.tcx;
        let def_id = self.def.to_def_id();
        let path = path_of(tcx, def_id);
        let sm = tcx.sess.source_map();
        let bspan = self.body.span;
        let loc = sm.lookup_char_pos(bspan.source_callsite().lo());
        self.file = format!("{}", loc.file.name.prefer_local_unconditionally());
        let kind = match tcx.def_kind(def_id) {
            DefKind::Fn => "fn",
            DefKind::AssocFn => "assoc_fn",
            DefKind::Closure => {
                if tcx.is_coroutine(def_id) {
                    "coroutine"
                } else {
                    "closure"
                }
            }
            DefKind::Const { .. } => "const",
            DefKind::AssocConst { .. } => "assoc_const",
            DefKind::Static { .. } => "static",
            DefKind::AnonConst => "anon_const",
            DefKind::InlineConst => "inline_const",
            _ => "other",
        };
        let vis = match tcx.def_kind(def_id) {
            DefKind::Fn | DefKind::AssocFn => {
                let v = tcx.visibility(def_id);
                if v.is_public() { J::s("pub") } else { J::s("restricted") }
            }
            _ => J::Null,
        };
        let parent = tcx.opt_parent(def_id).map(|p| path_of(tcx, p));
        // impl info for assoc fns
        let mut impl_of = J::Null;
        let mut trait_of = J::Null;
        if matches!(tcx.def_kind(def_id), DefKind::AssocFn) {
            if let Some(p) = tcx.opt_parent(def_id) {
                if let DefKind::Impl { of_trait } = tcx.def_kind(p) {
                    let self_ty = tcx.type_of(p).instantiate_identity().skip_norm_wip();
                    impl_of = J::s(ty_str(self_ty));
                    if of_trait {
                        let tr = tcx.impl_trait_ref(p).instantiate_identity().skip_norm_wip();
                        trait_of = J::s(path_of(tcx, tr.def_id));
                    }
                }
            }
        }
        let mut locals = vec![];
        let mut names: HashMap<Local, String> = HashMap::new();
        for v in &self.body.var_debug_info {
            if let VarDebugInfoContents::Place(p) = &v.value {
                if p.projection.is_empty() {
                    names.entry(p.local).or_insert_with(|| v.name.to_string());
                }
            }
        }
        // captured variable names for closure/coroutine upvars appear as projections of _1
        let mut upvars = vec![];
        for v in &self.body.var_debug_info {
            if let VarDebugInfoContents::Place(p) = &v.value {
                if !p.projection.is_empty() && p.local == Local::from_u32(1) {
                    let mut fidx = None;
                    for e in p.projection.iter() {
                        if let PlaceElem::Field(f, _) = e {
                            fidx = Some(f.as_u32());
                            break;
                        }
                    }
                    if let Some(f) = fidx {
                        upvars.push(J::A(vec![J::I(f as i128), J::s(v.name.to_string())]));
                    }
                }
            }
        }
        for (l, decl) in self.body.local_decls.iter_enumerated() {
            let t = ty_str(decl.ty);
            let ti = self.s(&t);
            let n = match names.get(&l) {
                Some(n) => J::s(n.clone()),
                None => J::Null,
            };
            locals.push(J::O(vec![("t", ti), ("n", n)]));
        }
        let mut blocks = vec![];
        for (bb, data) in self.body.basic_blocks.iter_enumerated() {
            let _ = bb;
            let mut stmts = vec![];
            for stmt in &data.statements {
                if let Some(j) = self.stmt_json(stmt) {
                    stmts.push(j);
                }
            }
            let term = self.term_json(data.terminator());
            blocks.push(J::O(vec![
                ("s", J::A(stmts)),
                ("t", term),
                ("cu", if data.is_cleanup { J::B(true) } else { J::Null }),
            ]));
        }
        let ret_ty = ty_str(self.body.local_decls[Local::from_u32(0)].ty);
        J::O(vec![
            ("path", J::s(path)),
            ("kind", J::s(kind)),
            ("vis", vis),
            ("root", J::s(path_of(tcx, root.to_def_id()))),
            ("parent", parent.map(J::s).unwrap_or(J::Null)),
            ("impl_of", impl_of),
            ("trait_of", trait_of),
            ("file", J::s(self.file.clone())),
            ("line", J::I(loc.line as i128)),
            ("argc", J::I(self.body.arg_count as i128)),
            ("ret", J::s(ret_ty)),
            ("upvars", J::A(upvars)),
            ("locals", J::A(locals)),
            ("blocks", J::A(blocks)),
            ("strs", J::A(self.st.strings.iter().map(|s| J::s(s.clone())).collect())),
        ])
    }

    fn place_json(&mut self, place: &Place<'tcx>) -> J {
        let tcx = self.tcx;
        let mut pty = mir::PlaceTy::from_ty(self.body.local_decls[place.local].ty);
        let mut proj = vec![];
        for elem in place.projection.iter() {
            match elem {
                PlaceElem::Deref => proj.push(J::s("*")),
                PlaceElem::Field(f, _fty) => {
                    let base = pty.ty;
                    let (owner, fname) = match base.kind() {
                        ty::Adt(adt, _) => {
                            let vidx = pty.variant_index.unwrap_or(rustc_abi::FIRST_VARIANT);
                            let v = adt.variant(vidx);
                            let name = v.fields[f].name.to_string();
                            let mut owner = path_of(tcx, adt.did());
                            if adt.is_enum() {
                                owner.push_str("::");
                                owner.push_str(v.name.as_str());
                            }
                            (owner, name)
                        }
                        ty::Tuple(_) => ("(tuple)".to_string(), f.as_u32().to_string()),
                        ty::Closure(d, _) | ty::Coroutine(d, _) | ty::CoroutineClosure(d, _) => {
                            (format!("(closure){}", path_of(tcx, *d)), f.as_u32().to_string())
                        }
                        _ => ("?".to_string(), f.as_u32().to_string()),
                    };
                    let o = self.s(&owner);
                    proj.push(J::A(vec![J::s("f"), J::I(f.as_u32() as i128), o, J::s(fname)]));
                }
                PlaceElem::Index(l) => proj.push(J::A(vec![J::s("i"), J::I(l.as_u32() as i128)])),
                PlaceElem::ConstantIndex { offset, from_end, .. } => {
                    proj.push(J::A(vec![J::s("ci"), J::I(offset as i128), J::B(from_end)]))
                }
                PlaceElem::Subslice { .. } => proj.push(J::s("sub")),
                PlaceElem::Downcast(name, vidx) => {
                    let n = match name {
                        Some(n) => n.to_string(),
                        None => match pty.ty.kind() {
                            ty::Adt(adt, _) if adt.is_enum() => adt.variant(vidx).name.to_string(),
                            _ => format!("#{}", vidx.as_u32()),
                        },
                    };
                    proj.push(J::A(vec![J::s("d"), J::s(n)]));
                }
                PlaceElem::OpaqueCast(_) => proj.push(J::s("oc")),
                PlaceElem::UnwrapUnsafeBinder(_) => proj.push(J::s("ub")),
            }
            pty = pty.projection_ty(tcx, elem);
        }
        J::A(vec![J::I(place.local.as_u32() as i128), J::A(proj)])
    }

    fn note_enum(&mut self, ty: Ty<'tcx>) -> J {
        let tcx = self.tcx;
        if let ty::Adt(adt, _) = ty.kind() {
            if adt.is_enum() {
                let p = path_of(tcx, adt.did());
                if !self.st.enums.contains_key(&p) {
                    let mut arr = vec![];
                    for (vidx, discr) in adt.discriminants(tcx) {
                        let v = adt.variant(vidx);
                        arr.push(J::A(vec![J::I(discr.val as i128), J::s(v.name.to_string())]));
                    }
                    let mut s = String::new();
                    J::A(arr).write(&mut s);
                    self.st.enums.insert(p.clone(), s);
                }
                return self.s(&p);
            }
        }
        J::Null
    }

    fn const_json(&mut self, c: &mir::ConstOperand<'tcx>) -> J {
        let tcx = self.tcx;
        let ty = c.const_.ty();
        let mut fields: Vec<(&'static str, J)> = vec![];
        match ty.kind() {
            ty::FnDef(def_id, args) => {
                fields.push(("fn", J::s(path_of(tcx, *def_id))));
                let a = with_resolve_crate_name!(with_no_visible_paths!(with_no_trimmed_paths!(format!("{:?}", args))));
                if args.len() > 0 {
                    fields.push(("args", self.s(&a)));
                }
                // self type of a trait method call
                if let Some(tr) = tcx.trait_of_assoc(*def_id) {
                    fields.push(("trait", J::s(path_of(tcx, tr))));
                    if args.len() > 0 {
                        if let Some(t) = args[0].as_type() {
                            let t = ty_str(t);
                            fields.push(("self", self.s(&t)));
                        }
                    }
                    // attempt resolution
                    if let Some(r) = self.resolve(*def_id, args) {
                        fields.push(("res", J::s(r)));
                    }
                } else if let Some(imp) = tcx.inherent_impl_of_assoc(*def_id) {
                    let self_ty = tcx.type_of(imp).instantiate_identity().skip_norm_wip();
                    let t = ty_str(self_ty);
                    fields.push(("self", self.s(&t)));
                }
                return J::O(fields);
            }
            _ => {}
        }
        let t = ty_str(ty);
        fields.push(("ty", self.s(&t)));
        match c.const_ {
            Const::Val(v, _) => match v {
                ConstValue::Scalar(mir::interpret::Scalar::Int(i)) => {
                    let bits = i.to_bits_unchecked();
                    let val: i128 = if ty.is_signed() {
                        let size = i.size();
                        size.sign_extend(bits) as i128
                    } else {
                        bits as i128
                    };
                    fields.push(("v", J::I(val)));
                }
                ConstValue::Scalar(mir::interpret::Scalar::Ptr(ptr, _)) => {
                    // references to statics: `&STATIC` is a pointer constant into the static's allocation
                    let alloc_id = ptr.provenance.alloc_id();
                    if let Some(mir::interpret::GlobalAlloc::Static(did)) = tcx.try_get_global_alloc(alloc_id) {
                        fields.push(("static", J::s(path_of(tcx, did))));
                    }
                }
                ConstValue::Slice { .. } => {
                    if let ty::Ref(_, inner, _) = ty.kind() {
                        if inner.is_str() {
                            if let Some(b) = v.try_get_slice_bytes_for_diagnostics(tcx) {
                                fields.push(("s", J::s(String::from_utf8_lossy(b).to_string())));
                            }
                        }
                    }
                }
                ConstValue::ZeroSized => {
                    fields.push(("zst", J::B(true)));
                }
                _ => {}
            },
            Const::Unevaluated(u, _) => {
                fields.push(("def", J::s(path_of(tcx, u.def))));
                if let Some(p) = u.promoted {
                    fields.push(("promoted", J::I(p.as_u32() as i128)));
                }
            }
            Const::Ty(_, ct) => {
                fields.push(("cty", J::s(format!("{:?}", ct))));
            }
        }
        J::O(fields)
    }

    fn resolve(&mut self, def_id: DefId, args: ty::GenericArgsRef<'tcx>) -> Option<String> {
        let tcx = self.tcx;
        // Only attempt when the self type is not a bare type parameter / opaque / infer.
        let self_ty = args.get(0)?.as_type()?;
        match self_ty.kind() {
            ty::Param(_) | ty::Alias(..) | ty::Infer(_) | ty::Placeholder(_) | ty::Bound(..) | ty::Dynamic(..) => return None,
            _ => {}
        }
        let args = tcx.erase_and_anonymize_regions(args);
        if args.has_non_region_infer() {
            return None;
        }
        let typing_env = ty::TypingEnv::non_body_analysis(tcx, self.def.to_def_id());
        match ty::Instance::try_resolve(tcx, typing_env, def_id, args) {
            Ok(Some(inst)) => Some(path_of(tcx, inst.def_id())),
            _ => None,
        }
    }

    fn op_json(&mut self, op: &Operand<'tcx>) -> J {
        match op {
            Operand::Copy(p) => J::A(vec![J::s("c"), self.place_json(p)]),
            Operand::Move(p) => J::A(vec![J::s("m"), self.place_json(p)]),
            Operand::Constant(c) => J::A(vec![J::s("k"), self.const_json(c)]),
            _ => J::A(vec![J::s("rt")]),
        }
    }

    fn rvalue_json(&mut self, rv: &Rvalue<'tcx>) -> J {
        let tcx = self.tcx;
        match rv {
            Rvalue::Use(op, _) => J::O(vec![("k", J::s("use")), ("o", self.op_json(op))]),
            Rvalue::Repeat(op, _) => J::O(vec![("k", J::s("repeat")), ("o", self.op_json(op))]),
            Rvalue::Ref(_, bk, p) => {
                let m = matches!(bk, BorrowKind::Mut { .. });
                let fake = matches!(bk, BorrowKind::Fake(_));
                J::O(vec![
                    ("k", J::s("ref")),
                    ("mut", if m { J::B(true) } else { J::Null }),
                    ("fake", if fake { J::B(true) } else { J::Null }),
                    ("p", self.place_json(p)),
                ])
            }
            Rvalue::ThreadLocalRef(d) => {
                J::O(vec![("k", J::s("tls")), ("def", J::s(path_of(tcx, *d)))])
            }
            Rvalue::RawPtr(kind, p) => J::O(vec![
                ("k", J::s("rawptr")),
                ("mut", J::B(matches!(kind, mir::RawPtrKind::Mut))),
                ("p", self.place_json(p)),
            ]),
            Rvalue::Cast(kind, op, ty) => {
                let t = ty_str(*ty);
                J::O(vec![
                    ("k", J::s("cast")),
                    ("ck", J::s(format!("{:?}", kind))),
                    ("o", self.op_json(op)),
                    ("ty", self.s(&t)),
                ])
            }
            Rvalue::BinaryOp(op, ab) => {
                let (a, b) = &**ab;
                let t = ty_str(a.ty(&self.body.local_decls, tcx));
                J::O(vec![
                    ("k", J::s("bin")),
                    ("op", J::s(format!("{:?}", op))),
                    ("ty", self.s(&t)),
                    ("a", self.op_json(a)),
                    ("b", self.op_json(b)),
                ])
            }
            Rvalue::UnaryOp(op, a) => {
                let t = ty_str(a.ty(&self.body.local_decls, tcx));
                J::O(vec![
                    ("k", J::s("un")),
                    ("op", J::s(format!("{:?}", op))),
                    ("ty", self.s(&t)),
                    ("a", self.op_json(a)),
                ])
            }
            Rvalue::Discriminant(p) => {
                let pty = p.ty(&self.body.local_decls, tcx).ty;
                let e = self.note_enum(pty);
                J::O(vec![("k", J::s("discr")), ("p", self.place_json(p)), ("enum", e)])
            }
            Rvalue::Aggregate(kind, ops) => {
                let mut fields: Vec<(&'static str, J)> = vec![("k", J::s("agg"))];
                let mut names: Vec<String> = vec![];
                match &**kind {
                    AggregateKind::Array(_) => fields.push(("ak", J::s("array"))),
                    AggregateKind::Tuple => fields.push(("ak", J::s("tuple"))),
                    AggregateKind::Adt(did, vidx, _, _, active) => {
                        let adt = tcx.adt_def(*did);
                        fields.push(("ak", J::s("adt")));
                        fields.push(("adt", J::s(path_of(tcx, *did))));
                        let v = adt.variant(*vidx);
                        if adt.is_enum() {
                            fields.push(("var", J::s(v.name.to_string())));
                        }
                        if let Some(a) = active {
                            names.push(v.fields[*a].name.to_string());
                        } else {
                            for f in v.fields.iter() {
                                names.push(f.name.to_string());
                            }
                        }
                    }
                    AggregateKind::Closure(d, _) => {
                        fields.push(("ak", J::s("closure")));
                        fields.push(("def", J::s(path_of(tcx, *d))));
                    }
                    AggregateKind::Coroutine(d, _) => {
                        fields.push(("ak", J::s("coroutine")));
                        fields.push(("def", J::s(path_of(tcx, *d))));
                    }
                    AggregateKind::CoroutineClosure(d, _) => {
                        fields.push(("ak", J::s("coroutine_closure")));
                        fields.push(("def", J::s(path_of(tcx, *d))));
                    }
                    AggregateKind::RawPtr(..) => fields.push(("ak", J::s("rawptr"))),
                }
                let mut os = vec![];
                for o in ops.iter() {
                    os.push(self.op_json(o));
                }
                fields.push(("ops", J::A(os)));
                if !names.is_empty() {
                    fields.push(("fn", J::A(names.into_iter().map(J::s).collect())));
                }
                J::O(fields)
            }
            Rvalue::CopyForDeref(p) => {
                J::O(vec![("k", J::s("use")), ("o", J::A(vec![J::s("c"), self.place_json(p)])), ("cfd", J::B(true))])
            }
            Rvalue::WrapUnsafeBinder(op, _) => {
                J::O(vec![("k", J::s("use")), ("o", self.op_json(op))])
            }
        }
    }

    fn stmt_json(&mut self, stmt: &mir::Statement<'tcx>) -> Option<J> {
        match &stmt.kind {
            StatementKind::Assign(b) => {
                let (place, rv) = &**b;
                let (l, f, x) = self.span_info(stmt.source_info.span);
                Some(J::O(vec![
                    ("k", J::s("a")),
                    ("p", self.place_json(place)),
                    ("r", self.rvalue_json(rv)),
                    ("l", l),
                    ("f", f),
                    ("x", x),
                ]))
            }
            StatementKind::SetDiscriminant { place, variant_index } => {
                let (l, f, x) = self.span_info(stmt.source_info.span);
                Some(J::O(vec![
                    ("k", J::s("setdiscr")),
                    ("p", self.place_json(place)),
                    ("v", J::I(variant_index.as_u32() as i128)),
                    ("l", l),
                    ("f", f),
                    ("x", x),
                ]))
            }
            StatementKind::StorageDead(l) => {
                Some(J::O(vec![("k", J::s("dead")), ("loc", J::I(l.as_u32() as i128))]))
            }
            _ => None,
        }
    }

    fn unwind_json(&self, u: &UnwindAction) -> J {
        match u {
            UnwindAction::Cleanup(bb) => J::I(bb.as_u32() as i128),
            _ => J::Null,
        }
    }

    fn bb(&self, b: BasicBlock) -> J {
        J::I(b.as_u32() as i128)
    }

    fn term_json(&mut self, term: &mir::Terminator<'tcx>) -> J {
        let tcx = self.tcx;
        let span = term.source_info.span;
        let (l, f, x) = self.span_info(span);
        let mut fields: Vec<(&'static str, J)> = vec![];
        match &term.kind {
            TerminatorKind::Goto { target } => {
                fields.push(("k", J::s("goto")));
                fields.push(("to", self.bb(*target)));
            }
            TerminatorKind::SwitchInt { discr, targets } => {
                fields.push(("k", J::s("switch")));
                let t = ty_str(discr.ty(&self.body.local_decls, tcx));
                fields.push(("ty", self.s(&t)));
                fields.push(("d", self.op_json(discr)));
                let mut arr = vec![];
                for (v, bb) in targets.iter() {
                    arr.push(J::A(vec![J::I(v as i128), self.bb(bb)]));
                }
                fields.push(("tg", J::A(arr)));
                fields.push(("else", self.bb(targets.otherwise())));
            }
            TerminatorKind::UnwindResume => fields.push(("k", J::s("resume"))),
            TerminatorKind::UnwindTerminate(_) => fields.push(("k", J::s("terminate"))),
            TerminatorKind::Return => fields.push(("k", J::s("return"))),
            TerminatorKind::Unreachable => fields.push(("k", J::s("unreachable"))),
            TerminatorKind::Drop { place, target, unwind, .. } => {
                fields.push(("k", J::s("drop")));
                fields.push(("p", self.place_json(place)));
                let t = ty_str(place.ty(&self.body.local_decls, tcx).ty);
                fields.push(("ty", self.s(&t)));
                fields.push(("to", self.bb(*target)));
                fields.push(("uw", self.unwind_json(unwind)));
            }
            TerminatorKind::Call { func, args, destination, target, unwind, .. } => {
                fields.push(("k", J::s("call")));
                fields.push(("f", self.op_json(func)));
                let mut a = vec![];
                for arg in args.iter() {
                    a.push(self.op_json(&arg.node));
                }
                fields.push(("a", J::A(a)));
                fields.push(("d", self.place_json(destination)));
                fields.push(("to", target.map(|t| self.bb(t)).unwrap_or(J::Null)));
                fields.push(("uw", self.unwind_json(unwind)));
                if span.from_expansion() {
                    fields.push(("snip", self.snippet(span)));
                }
            }
            TerminatorKind::TailCall { func, args, .. } => {
                fields.push(("k", J::s("tailcall")));
                fields.push(("f", self.op_json(func)));
                let mut a = vec![];
                for arg in args.iter() {
                    a.push(self.op_json(&arg.node));
                }
                fields.push(("a", J::A(a)));
            }
            TerminatorKind::Assert { cond, expected, msg, target, unwind } => {
                fields.push(("k", J::s("assert")));
                fields.push(("c", self.op_json(cond)));
                fields.push(("exp", J::B(*expected)));
                let (mk, ops): (String, Vec<&Operand<'tcx>>) = match &**msg {
                    AssertKind::BoundsCheck { len, index } => ("BoundsCheck".into(), vec![len, index]),
                    AssertKind::Overflow(op, a, b) => (format!("Overflow:{:?}", op), vec![a, b]),
                    AssertKind::OverflowNeg(a) => ("OverflowNeg".into(), vec![a]),
                    AssertKind::DivisionByZero(a) => ("DivisionByZero".into(), vec![a]),
                    AssertKind::RemainderByZero(a) => ("RemainderByZero".into(), vec![a]),
                    AssertKind::ResumedAfterReturn(_) => ("ResumedAfterReturn".into(), vec![]),
                    AssertKind::ResumedAfterPanic(_) => ("ResumedAfterPanic".into(), vec![]),
                    AssertKind::ResumedAfterDrop(_) => ("ResumedAfterDrop".into(), vec![]),
                    AssertKind::MisalignedPointerDereference { .. } => ("Misaligned".into(), vec![]),
                    AssertKind::NullPointerDereference => ("NullDeref".into(), vec![]),
                    AssertKind::InvalidEnumConstruction(_) => ("InvalidEnum".into(), vec![]),
                };
                fields.push(("mk", J::s(mk)));
                let mut oj = vec![];
                let mut tys = vec![];
                for o in ops {
                    oj.push(self.op_json(o));
                    tys.push(J::s(ty_str(o.ty(&self.body.local_decls, tcx))));
                }
                fields.push(("ops", J::A(oj)));
                fields.push(("tys", J::A(tys)));
                fields.push(("to", self.bb(*target)));
                fields.push(("uw", self.unwind_json(unwind)));
            }
            TerminatorKind::Yield { value, resume, resume_arg, drop } => {
                fields.push(("k", J::s("yield")));
                fields.push(("v", self.op_json(value)));
                fields.push(("to", self.bb(*resume)));
                fields.push(("ra", self.place_json(resume_arg)));
                fields.push(("drop", drop.map(|d| self.bb(d)).unwrap_or(J::Null)));
            }
            TerminatorKind::CoroutineDrop => fields.push(("k", J::s("codrop"))),
            TerminatorKind::FalseEdge { real_target, imaginary_target } => {
                fields.push(("k", J::s("goto")));
                fields.push(("to", self.bb(*real_target)));
                fields.push(("imag", self.bb(*imaginary_target)));
            }
            TerminatorKind::FalseUnwind { real_target, .. } => {
                fields.push(("k", J::s("goto")));
                fields.push(("to", self.bb(*real_target)));
                fields.push(("fu", J::B(true)));
            }
            TerminatorKind::InlineAsm { .. } => fields.push(("k", J::s("asm"))),
        }
        fields.push(("l", l));
        fields.push(("fl", f));
        fields.push(("x", x));
        J::O(fields)
    }
}

/// Crate-level facts + write-out.
pub fn finish(tcx: TyCtxt<'_>) {
    let dir = match std::env::var("BRUSH_FACTS_DIR") {
        Ok(d) => d,
        Err(_) => return,
    };
    let mut guard = STATE.lock().unwrap();
    let st = guard.get_or_insert_with(State::new);
    let krate = tcx.crate_name(LOCAL_CRATE).to_string();

    // ADTs, impls, fns, statics
    let mut adts = vec![];
    let mut impls = vec![];
    let mut fns = vec![];
    let mut statics = vec![];
    for id in tcx.hir_crate_items(()).definitions() {
        let def_id = id.to_def_id();
        match tcx.def_kind(def_id) {
            DefKind::Struct | DefKind::Enum | DefKind::Union => {
                let adt = tcx.adt_def(def_id);
                let mut variants = vec![];
                for v in adt.variants().iter() {
                    let mut fields = vec![];
                    for f in v.fields.iter() {
                        let fty = tcx.type_of(f.did).instantiate_identity().skip_norm_wip();
                        fields.push(J::O(vec![
                            ("name", J::s(f.name.to_string())),
                            ("ty", J::s(ty_str(fty))),
                            ("pub", J::B(f.vis.is_public())),
                        ]));
                    }
                    variants.push(J::O(vec![
                        ("name", J::s(v.name.to_string())),
                        ("fields", J::A(fields)),
                    ]));
                }
                adts.push(J::O(vec![
                    ("path", J::s(path_of(tcx, def_id))),
                    ("kind", J::s(if adt.is_enum() { "enum" } else if adt.is_union() { "union" } else { "struct" })),
                    ("pub", J::B(tcx.visibility(def_id).is_public())),
                    ("variants", J::A(variants)),
                ]));
            }
            DefKind::Impl { of_trait } => {
                let self_ty = tcx.type_of(def_id).instantiate_identity().skip_norm_wip();
                let tr = if of_trait {
                    let tr = tcx.impl_trait_ref(def_id).instantiate_identity().skip_norm_wip();
                    J::s(path_of(tcx, tr.def_id))
                } else {
                    J::Null
                };
                let derived = tcx.is_automatically_derived(def_id);
                let mut items = vec![];
                for it in tcx.associated_item_def_ids(def_id) {
                    items.push(J::s(path_of(tcx, *it)));
                }
                impls.push(J::O(vec![
                    ("self", J::s(ty_str(self_ty))),
                    ("trait", tr),
                    ("derived", J::B(derived)),
                    ("items", J::A(items)),
                ]));
            }
            DefKind::Fn | DefKind::AssocFn => {
                let sig = tcx.fn_sig(def_id).instantiate_identity().skip_norm_wip();
                let sig = with_resolve_crate_name!(with_no_visible_paths!(with_no_trimmed_paths!(format!("{}", sig))));
                fns.push(J::O(vec![
                    ("path", J::s(path_of(tcx, def_id))),
                    ("pub", J::B(tcx.visibility(def_id).is_public())),
                    ("sig", J::s(sig)),
                ]));
            }
            DefKind::Static { .. } => {
                let t = tcx.type_of(def_id).instantiate_identity().skip_norm_wip();
                statics.push(J::O(vec![
                    ("path", J::s(path_of(tcx, def_id))),
                    ("ty", J::s(ty_str(t))),
                    ("mut", J::B(tcx.is_mutable_static(def_id))),
                    ("tls", J::B(tcx.is_thread_local_static(def_id))),
                ]));
            }
            _ => {}
        }
    }

    let mut out = String::with_capacity(64 << 20);
    out.push_str("{\"crate\":");
    crate::json::write_str(&krate, &mut out);
    out.push_str(",\"roots\":");
    out.push_str(&st.seen_roots.to_string());
    out.push_str(",\"enums\":{");
    let mut first = true;
    let mut keys: Vec<&String> = st.enums.keys().collect();
    keys.sort();
    for k in keys {
        if !first {
            out.push(',');
        }
        first = false;
        crate::json::write_str(k, &mut out);
        out.push(':');
        out.push_str(&st.enums[k]);
    }
    out.push_str("},\"adts\":");
    J::A(adts).write(&mut out);
    out.push_str(",\"impls\":");
    J::A(impls).write(&mut out);
    out.push_str(",\"fns\":");
    J::A(fns).write(&mut out);
    out.push_str(",\"statics\":");
    J::A(statics).write(&mut out);
    out.push_str(",\"bodies\":[");
    for (i, b) in st.bodies.iter().enumerate() {
        if i > 0 {
            out.push(',');
        }
        out.push_str(b);
    }
    out.push_str("]}");
    let crate_types: Vec<String> =
        tcx.crate_types().iter().map(|c| format!("{:?}", c)).collect();
    let fname = format!(
        "{}/{}-{}-{}.json",
        dir,
        krate,
        crate_types.join("_"),
        std::process::id()
    );
    let tmp = format!("{}.tmp", fname);
    std::fs::write(&tmp, out).expect("write facts");
    std::fs::rename(&tmp, &fname).expect("rename facts");
}
