//! brush-facts-driver: a rustc driver that dumps, for every body of the crate being compiled,
//! the MIR *after promotion and before borrowck / drop elaboration / coroutine transform*
//! as JSON facts. Used through RUSTC_WORKSPACE_WRAPPER under `cargo +nightly check`.
//!
//! Environment:
//!   BRUSH_FACTS_DIR    directory receiving `<crate>-<pid>.json` (required to dump)
//!   BRUSH_FACTS_CRATES comma separated crate names to dump (default: all wrapped crates)
#![feature(rustc_private)]
#![allow(clippy::all)]

extern crate rustc_abi;
extern crate rustc_data_structures;
extern crate rustc_driver;
extern crate rustc_hir;
extern crate rustc_interface;
extern crate rustc_middle;
extern crate rustc_session;
extern crate rustc_span;

mod json;
mod dump;

use std::sync::Mutex;

use rustc_driver::Compilation;
use rustc_interface::interface;
use rustc_middle::ty::TyCtxt;
use rustc_middle::util::Providers;
use rustc_session::Session;
use rustc_span::def_id::LocalDefId;

type BorrowckFn = for<'tcx> fn(
    TyCtxt<'tcx>,
    LocalDefId,
) -> rustc_middle::queries::mir_borrowck::ProvidedValue<'tcx>;

static ORIG_BORROWCK: Mutex<Option<BorrowckFn>> = Mutex::new(None);
pub static STATE: Mutex<Option<dump::State>> = Mutex::new(None);

fn override_queries(_sess: &Session, providers: &mut Providers) {
    *ORIG_BORROWCK.lock().unwrap() = Some(providers.queries.mir_borrowck);
    providers.queries.mir_borrowck = my_borrowck;
}

fn my_borrowck<'tcx>(
    tcx: TyCtxt<'tcx>,
    def: LocalDefId,
) -> rustc_middle::queries::mir_borrowck::ProvidedValue<'tcx> {
    if dump::enabled(tcx) {
        dump::dump_root(tcx, def);
    }
    let orig = ORIG_BORROWCK.lock().unwrap().expect("orig provider");
    orig(tcx, def)
}

struct Cb;

impl rustc_driver::Callbacks for Cb {
    fn config(&mut self, config: &mut interface::Config) {
        config.override_queries = Some(override_queries);
    }
    fn after_analysis<'tcx>(
        &mut self,
        _compiler: &interface::Compiler,
        tcx: TyCtxt<'tcx>,
    ) -> Compilation {
        if dump::enabled(tcx) {
            dump::finish(tcx);
        }
        Compilation::Continue
    }
}

fn main() {
    let mut args: Vec<String> = std::env::args().collect();
    // Invoked as: driver <path-to-rustc> <rustc args...> (RUSTC_WORKSPACE_WRAPPER)
    if args.len() > 1 && (args[1].ends_with("rustc") || args[1].contains("/rustc")) {
        args.remove(1);
    }
    args.push("--cap-lints".into());
    args.push("allow".into());
    let code = rustc_driver::catch_with_exit_code(move || {
        rustc_driver::run_compiler(&args, &mut Cb);
    });
    std::process::exit(match code {
        c if c == std::process::ExitCode::SUCCESS => 0,
        _ => 1,
    });
}
